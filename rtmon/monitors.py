"""Cross-cutting invariant hooks (DESIGN.md section 2.5) - installed on the real functions.

Each install_* function is called from a property module's setup(); the monitors
report to the context of the case that is running (rtmon.ctx.active()).
"""
import math

from . import hook
from .ctx import active
from .num import m_apply, m_cond, m_of


def _pt(p):
    return None if p is None else (p.x, p.y)


def _close(a, b, tol=1e-12):
    return abs(a[0] - b[0]) <= tol and abs(a[1] - b[1]) <= tol


def check_path_links(S, path, lo=0, hi=None, move_starts=True):
    """stored pairs are linked and every Close returns to its subpath start; returns a description or None"""
    segs = path._segments
    n = len(segs)
    hi = n if hi is None else min(hi, n)
    for i in range(max(lo, 1), hi):
        a, b = segs[i - 1].end, segs[i].start
        if not move_starts and isinstance(segs[i], S.Move):
            continue  # the start of a move is a back link without geometric meaning
        if a is not None and b is not None:
            try:
                if not _close((a.x, a.y), (b.x, b.y)):
                    return "segment %d starts at %s but segment %d ended at %s" % (i, _pt(b), i - 1, _pt(a))
            except TypeError:
                return "segment %d/%d carry non-numeric coordinates %r %r" % (i - 1, i, a, b)
    for i in range(lo, hi):
        seg = segs[i]
        if isinstance(seg, S.Close) and seg.end is not None:
            target = None
            for k in range(i, -1, -1):
                if isinstance(segs[k], S.Move):
                    target = segs[k].end
                    break
            alt = None
            if target is None:
                # a fragment without a move: its first subpath starts where its first segment starts (the library
                # itself falls back to that segment's end when the start is unknown)
                target = segs[0].end
                alt = segs[0].start
            if target is not None:
                try:
                    if alt is not None and _close((seg.end.x, seg.end.y), (alt.x, alt.y)):
                        continue
                    if not _close((seg.end.x, seg.end.y), (target.x, target.y)):
                        return "close %d ends at %s, its subpath started at %s" % (i, _pt(seg.end), _pt(target))
                except TypeError:
                    return "close %d carries non-numeric coordinates" % i
    return None


POINT_SLOTS = ("start", "end", "control", "control1", "control2", "center", "prx", "pry")


def check_no_internal_alias(S, path, limit=400):
    """no two coordinate slots of a path hold the same Point object (an in-place transform would map a shared point twice)"""
    segs = path._segments
    if len(segs) > limit:
        return None
    seen = {}
    for i, seg in enumerate(segs):
        for n in POINT_SLOTS:
            v = getattr(seg, n, None)
            if v is None:
                continue
            k = id(v)
            if k in seen and seen[k] != (i, n):
                return "segment %d.%s and segment %d.%s are the same Point object" % (seen[k][0], seen[k][1], i, n)
            seen[k] = (i, n)
    return None


def install_path_invariants(S, key_prefix="hook/path-links"):
    """post-condition of every Path mutator: neighbours linked, closes return home"""

    def make(name, local):
        def post(old, result, exc, args, kwargs):
            if exc is not None:
                return
            path = args[0]
            n = len(path._segments)
            msg = check_path_links(S, path, max(0, n - 2), n) if local else (check_path_links(S, path) if n <= 400 else None)
            if msg:
                active().violation("%s/%s" % (key_prefix, name), "after Path.%s: %s" % (name, msg), monitor="path-links")
            if not local or n <= 64:
                msg = check_no_internal_alias(S, path)
                if msg:
                    active().violation("hook/path-internal-alias/%s" % name, "after Path.%s: %s" % (name, msg), monitor="path-links")

        return post

    for name, local in (("append", True), ("extend", False), ("insert", False), ("__setitem__", False), ("__delitem__", False)):
        hook.wrap(S.Path, name, post=make(name, local), monitor="path-links")


SAMPLE_T = [0.0, 1.0 / 7, 2.0 / 7, 0.5, 5.0 / 7, 6.0 / 7, 1.0]


def install_imul_monitor(S, key_prefix="hook/segment-imul"):
    """segment *= M maps every point of the segment by M (pre-state in hand)"""
    classes = [("Move", S.Move), ("Line", S.Line), ("Close", S.Close), ("QuadraticBezier", S.QuadraticBezier), ("CubicBezier", S.CubicBezier), ("Arc", S.Arc)]

    def make(cname):
        def pre(args, kwargs):
            seg, M = args[0], args[1]
            if not isinstance(M, S.Matrix):
                return None
            if seg.start is None or seg.end is None:
                return None
            try:
                m = m_of(M)
            except Exception:
                return None
            if cname == "Move":
                pts = [(seg.end.x, seg.end.y)]
            else:
                pts = [tuple(seg.point(t)) for t in SAMPLE_T]
            return (m, pts)

        def post(old, result, exc, args, kwargs):
            if exc is not None or old is None:
                return
            m, pts = old
            seg = args[0]
            k = m_cond(m)
            if not (k < 1e6):
                return
            if cname == "Move":
                new = [(seg.end.x, seg.end.y)]
            else:
                new = [tuple(seg.point(t)) for t in SAMPLE_T]
            exp = [m_apply(m, p) for p in pts]
            S_ = max([1e-3] + [abs(v) for p in exp + pts for v in p] + [abs(m[4]), abs(m[5])])
            size = max([math.hypot(p[0] - exp[0][0], p[1] - exp[0][1]) for p in exp] + [0.0])
            arc_term = 0.0
            if cname == "Arc":
                # the parameter of a point on a flat ellipse is ill-conditioned (as in C06 / C08): radii, not the sampled chord, set the scale
                try:
                    r1, r2 = float(seg.rx), float(seg.ry)
                    ecc = max(r1, r2) / max(min(r1, r2), 1e-300)
                    size = max(size, r1, r2)
                except Exception:
                    ecc = 1.0
                arc_term = 1e-9 * size * max(1.0, k / 10.0) * max(1.0, ecc / 100.0) + 8 * 2.3e-16 * S_ * ecc * ecc
            bound = 1e-11 * max(k, 1.0) * S_ + arc_term
            dev = max(math.hypot(a[0] - b[0], a[1] - b[1]) for a, b in zip(new, exp))
            ctx = active()
            ctx.see("hook-imul-" + cname, dev / bound)
            if dev > bound:
                ctx.violation("%s/%s" % (key_prefix, cname), "%s *= Matrix%s moved point(t) to %s, expected %s (dev %.3g, bound %.3g)" % (cname, m, new, exp, dev, bound), monitor="segment-imul-hook")

        return pre, post

    for cname, cls in classes:
        owner = cls if "__imul__" in cls.__dict__ else None
        if owner is None:
            for base in cls.__mro__:
                if "__imul__" in base.__dict__:
                    owner = base
                    break
        if owner is None or getattr(owner.__dict__["__imul__"], "__wrapped_original__", None) is not None:
            continue
        pre, post = make(owner.__name__)
        hook.wrap(owner, "__imul__", pre=pre, post=post, monitor="segment-imul-hook")
