"""pytest plugin: the cross-cutting hooks of rtmon.monitors under the repository's OWN tests (DESIGN.md 2.5 / 9.1).

Loaded with `-p rtmon.pytest_hooks` and only active when SVGELEMENTS_VERIF=1.  Installs the path-link post-condition and the
segment `*= Matrix` monitor on the imported svgelements classes, records what they saw per test and writes one JSON file per
xdist worker into $RTMON_HOOK_OUT.  A hook never raises into the library or the test.
"""
import json
import os

_state = {"ctx": None, "per_test": {}}


def pytest_configure(config):
    if os.environ.get("SVGELEMENTS_VERIF") != "1":
        return
    import svgelements as S

    from . import monitors
    from .ctx import Ctx

    ctx = Ctx("REPO-TESTS", "quick", 0)
    ctx.begin_case(0, {"what": "repository test suite"})
    _state["ctx"] = ctx
    monitors.install_path_invariants(S)
    monitors.install_imul_monitor(S)


def pytest_runtest_setup(item):
    ctx = _state["ctx"]
    if ctx is None:
        return
    _state["before"] = (dict(ctx.monitors), {k: v["count"] for k, v in ctx.violations.items()})
    ctx.case = {"test": item.nodeid}


def pytest_runtest_teardown(item):
    ctx = _state["ctx"]
    if ctx is None:
        return
    mon0, vio0 = _state.get("before", ({}, {}))
    new = {k: v["count"] - vio0.get(k, 0) for k, v in ctx.violations.items() if v["count"] - vio0.get(k, 0) > 0}
    if new:
        _state["per_test"][item.nodeid] = new


def pytest_sessionfinish(session, exitstatus):
    ctx = _state["ctx"]
    out = os.environ.get("RTMON_HOOK_OUT")
    if ctx is None or not out:
        return
    os.makedirs(out, exist_ok=True)
    data = {
        "monitor_evaluations": dict(ctx.monitors),
        "monitor_errors": {k: v for k, v in ctx.notes.items() if k.startswith("monitor-error")},
        "events": {k: {"count": v["count"], "first": (v["witnesses"][0].get("detail") if v["witnesses"] else "")[:600]} for k, v in ctx.violations.items()},
        "tests_with_events": _state["per_test"],
    }
    with open(os.path.join(out, "worker-%d.json" % os.getpid()), "w") as f:
        json.dump(data, f)
