"""Install monitors on the real functions by rebinding class attributes.

No edit of the repository is needed: the module resolves its methods through the
class at call time.  Names aliased in a class body (``__mul__ = __matmul__``) are
separate attributes bound to the original function and have to be wrapped one by
one.  A wrapper never raises into the library: the monitor records and the
original result (or exception) is passed on unchanged.
"""
import functools

from .ctx import active

_installed = []  # (owner, name, original descriptor)
_state = {"depth": 0}  # global: while any monitor runs, no hook fires


def wrap(owner, name, pre=None, post=None, monitor=None):
    """pre(args, kwargs) -> old ; post(old, result, exc, args, kwargs)"""
    raw = owner.__dict__[name]
    is_static = isinstance(raw, staticmethod)
    is_class = isinstance(raw, classmethod)
    func = raw.__func__ if (is_static or is_class) else raw
    state = _state

    @functools.wraps(func)
    def wrapper(*args, **kwargs):
        ctx = active()
        if state["depth"] or ctx is None:  # do not monitor calls made by the monitor itself
            return func(*args, **kwargs)
        old = None
        state["depth"] += 1
        try:
            if pre is not None:
                try:
                    old = pre(args, kwargs)
                except Exception as e:  # a monitor bug must never look like a library bug
                    if ctx is not None:
                        ctx.note("monitor-error/%s/pre/%s" % (monitor, type(e).__name__))
                    old = None
        finally:
            state["depth"] -= 1
        exc = None
        result = None
        try:
            result = func(*args, **kwargs)
            return result
        except BaseException as e:
            exc = e
            raise
        finally:
            if post is not None:
                state["depth"] += 1
                try:
                    if ctx is not None and monitor is not None:
                        ctx.mon(monitor)
                    post(old, result, exc, args, kwargs)
                except Exception as e:
                    if ctx is not None:
                        ctx.note("monitor-error/%s/post/%s:%s" % (monitor, type(e).__name__, str(e)[:80]))
                finally:
                    state["depth"] -= 1

    wrapper.__wrapped_original__ = func
    if is_static:
        new = staticmethod(wrapper)
    elif is_class:
        new = classmethod(wrapper)
    else:
        new = wrapper
    setattr(owner, name, new)
    _installed.append((owner, name, raw))
    return wrapper


def remove_all():
    while _installed:
        owner, name, raw = _installed.pop()
        setattr(owner, name, raw)
