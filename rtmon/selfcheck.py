"""Cross-check the reference models against literal examples from the SVG/CSS specifications.

Run by MANIFEST.setup_cmd and by `./check --self-check`.  Needs nothing but the standard
library (it does not import the code under test).
"""
import math
import sys

from .num import m_apply, m_mul

CHECKS = []


def check(f):
    CHECKS.append(f)
    return f


def near(a, b, tol=1e-9):
    if isinstance(a, (tuple, list)):
        return all(near(x, y, tol) for x, y in zip(a, b)) and len(a) == len(b)
    return abs(a - b) <= tol * max(1.0, abs(a), abs(b))


@check
def matref_examples():
    from .ref import matref

    f = lambda name, *args: {"fn": name, "args": [list(a) for a in args]}
    # SVG 1.1 7.6: translate(50,90) rotate(-45) translate(130,160) nests like three g elements:
    # a point is first translated by (130,160), then rotated, then translated by (50,90)
    m = matref.list_matrix([f("translate", (50, ""), (90, "")), f("rotate", (-45, "")), f("translate", (130, ""), (160, ""))])
    c = math.cos(math.radians(-45))
    s = math.sin(math.radians(-45))
    p = (130.0, 160.0)
    e = (c * p[0] - s * p[1] + 50, s * p[0] + c * p[1] + 90)
    assert near(m_apply(m, (0.0, 0.0)), e), (m_apply(m, (0, 0)), e)
    # spec 7.6 gives the resulting matrix (.707 -.707 .707 .707 255.03 111.21)
    assert near(m, (0.70710678, -0.70710678, 0.70710678, 0.70710678, 255.03, 111.21), 1e-3), m  # the spec rounds cos 45 to .707
    # rotate(a, cx, cy) == translate(cx,cy) rotate(a) translate(-cx,-cy)
    a = matref.list_matrix([f("rotate", (30, "deg"), (10, ""), (20, ""))])
    b = matref.list_matrix([f("translate", (10, ""), (20, "")), f("rotate", (30, "")), f("translate", (-10, ""), (-20, ""))])
    assert near(a, b)
    assert near(m_apply(a, (10.0, 20.0)), (10.0, 20.0))
    # units
    assert near(matref.fn_matrix(f("rotate", (100, "grad"))), matref.fn_matrix(f("rotate", (90, "deg"))))
    assert near(matref.fn_matrix(f("rotate", (0.25, "turn"))), matref.fn_matrix(f("rotate", (math.pi / 2, "rad"))))
    assert near(matref.fn_matrix(f("translate", (1, "in"), (2.54, "cm")), ppi=96.0), (1, 0, 0, 1, 96.0, 96.0))
    assert near(matref.fn_matrix(f("translate", (3, "pt"), (1, "pc"))), (1, 0, 0, 1, 4.0, 16.0))
    assert near(matref.fn_matrix(f("translate", (50, "%"), (10, "%")), width=200.0, height=50.0), (1, 0, 0, 1, 100.0, 5.0))
    assert near(matref.fn_matrix(f("scale", (2, ""))), (2, 0, 0, 2, 0, 0))
    assert near(matref.fn_matrix(f("skewX", (45, ""))), (1, 0, 1, 1, 0, 0))
    assert near(matref.fn_matrix(f("skewY", (45, ""))), (1, 1, 0, 1, 0, 0))
    assert near(matref.fn_matrix(f("skew", (45, ""))), (1, 0, 1, 1, 0, 0))
    # m_mul(first, then)
    t = (1, 0, 0, 1, 5, 0)
    sc = (2, 0, 0, 2, 0, 0)
    assert near(m_apply(m_mul(t, sc), (1.0, 1.0)), (12.0, 2.0))


@check
def arcref_examples():
    from .ref import arcref

    # quarter circle of radius 10 from (10,0) to (0,10), centre the origin, positive direction
    a = arcref.endpoint_to_centre(10, 0, 10, 10, 0, 0, 1, 0, 10)
    assert near((a.cx, a.cy), (0, 0)) and near(a.dtheta, math.pi / 2) and near(a.theta1, 0.0), (a.cx, a.cy, a.theta1, a.dtheta)
    assert near(a.point(0.5), (10 * math.cos(math.pi / 4), 10 * math.sin(math.pi / 4)))
    # the other three flag choices for the same endpoints (SVG 1.1 figure 'arcs02')
    b = arcref.endpoint_to_centre(10, 0, 10, 10, 0, 1, 0, 0, 10)
    assert near((b.cx, b.cy), (0, 0)) and near(b.dtheta, -1.5 * math.pi)
    c = arcref.endpoint_to_centre(10, 0, 10, 10, 0, 0, 0, 0, 10)
    assert near((c.cx, c.cy), (10, 10)) and near(c.dtheta, -math.pi / 2)
    d = arcref.endpoint_to_centre(10, 0, 10, 10, 0, 1, 1, 0, 10)
    assert near((d.cx, d.cy), (10, 10)) and near(d.dtheta, 1.5 * math.pi)
    # radii too small are scaled up uniformly until the chord is a diameter (F.6.6)
    e = arcref.endpoint_to_centre(0, 0, 1, 2, 0, 0, 1, 10, 0)
    assert e.scaled and near(e.rx, 5.0) and near(e.ry, 10.0) and near((e.cx, e.cy), (5.0, 0.0)) and near(abs(e.dtheta), math.pi)
    # negative radii act as their absolute values; rotation is taken modulo 360
    f = arcref.endpoint_to_centre(3, 4, -7, 5, 30 + 720, 1, 0, -2, 9)
    g = arcref.endpoint_to_centre(3, 4, 7, -5, 30, 1, 0, -2, 9)
    assert near(f.point(0.3), g.point(0.3)) and near(f.point(1.0), (-2, 9)) and near(f.point(0.0), (3, 4))
    # every point satisfies the ellipse equation
    for t in (0.1, 0.5, 0.9):
        x, y = f.point(t)
        cs, sn = math.cos(f.phi), math.sin(f.phi)
        u = cs * (x - f.cx) + sn * (y - f.cy)
        v = -sn * (x - f.cx) + cs * (y - f.cy)
        assert near(u * u / f.rx ** 2 + v * v / f.ry ** 2, 1.0)
    assert arcref.endpoint_to_centre(1, 1, 5, 5, 0, 0, 1, 1, 1) is None
    assert arcref.endpoint_to_centre(1, 1, 0, 5, 0, 0, 1, 2, 2) is None


@check
def bboxref_examples():
    from .ref import bboxref as B

    # quarter circle radius 1 about the origin from angle 0 to 90 degrees
    assert near(B.box(("E", (0, 0), (1, 0), (0, 1), 0.0, math.pi / 2)), (0, 0, 1, 1))
    # three quarters of it: reaches x = -1 and y = -1... no: 0 -> 270 degrees reaches x=-1, y=1 and y=-1
    assert near(B.box(("E", (0, 0), (1, 0), (0, 1), 0.0, 1.5 * math.pi)), (-1, -1, 1, 1))
    # ellipse rotated by 45 degrees: half width sqrt((a^2+b^2)/2)
    c = math.cos(math.pi / 4)
    w = math.sqrt((4 + 1) / 2.0)
    assert near(B.box(("E", (0, 0), (2 * c, 2 * c), (-c, c), 0.0, 2 * math.pi)), (-w, -w, w, w))
    # quadratic (0,0) (1,2) (2,0): apex at y = 1
    assert near(B.box(("P", [(0, 0), (1, 2), (2, 0)])), (0, 0, 2, 1))
    # cubic (0,0) (0,1) (1,1) (1,0): apex y = 0.75
    assert near(B.box(("P", [(0, 0), (0, 1), (1, 1), (1, 0)])), (0, 0, 1, 0.75))
    # cubic with two interior x extrema: (0,0) (4,0) (-3,0) (1,0)
    b = B.box(("P", [(0, 0), (4, 0), (-3, 0), (1, 0)]))
    s = B.box(("P", [(0, 0), (4, 0), (-3, 0), (1, 0)]), samples=4000)
    assert b[0] < 0 and b[2] > 1 and near(b, s, 1e-6)
    # the analytic box always contains the sampled one
    import random
    R = random.Random(5)
    for _ in range(300):
        cv = ("P", [(R.uniform(-9, 9), R.uniform(-9, 9)) for _ in range(R.choice([2, 3, 4]))])
        if R.random() < 0.4:
            cv = ("E", (R.uniform(-9, 9), R.uniform(-9, 9)), (R.uniform(-5, 5), R.uniform(-5, 5)), (R.uniform(-5, 5), R.uniform(-5, 5)), R.uniform(-7, 7), R.uniform(-12, 12))
        a_, s_ = B.box(cv), B.box(cv, samples=600)
        assert all(abs(x - y) < 1e-4 for x, y in zip(a_, s_)) and a_[0] <= s_[0] + 1e-12 and a_[2] >= s_[2] - 1e-12, (cv, a_, s_)
    # affine image
    m = (2.0, 0.0, 0.0, 3.0, 5.0, 7.0)
    assert near(B.box(B.map_curve(("E", (0, 0), (1, 0), (0, 1), 0.0, 2 * math.pi), m)), (3, 4, 7, 10))


@check
def quadrature_examples():
    from .ref import quadrature as Q

    # circle of radius 3, three quarters of a turn
    L, e, cap = Q.length(("E", (1, 1), (3, 0), (0, 3), 0.5, 1.5 * math.pi))
    assert near(L, 4.5 * math.pi * 1.0) and not cap
    # ellipse 2 x 1 perimeter (complete elliptic integral) = 9.688448220547675...
    L, e, cap = Q.length(("E", (0, 0), (2, 0), (0, 1), 0.0, 2 * math.pi))
    assert near(L, 9.688448220547675, 1e-10), L
    # quadratic (0,0) (1,0) (1,1): closed form 1.6232252401402305...  (known value of this standard example)
    L, e, cap = Q.length(("P", [(0, 0), (1, 0), (1, 1)]))
    assert near(L, 1.6232252401402305, 1e-10), L
    # collinear cubic that overshoots: (0,0) (20,0) (-10,0) (10,0): x(t) = 60t - 150 t^2 + 100 t^3,
    # x' = 60 - 300 t + 300 t^2 has roots 0.2764 and 0.7236: length = |x(r1)-x(0)| + |x(r2)-x(r1)| + |x(1)-x(r2)|
    x = lambda t: 60 * t - 150 * t * t + 100 * t ** 3
    r1, r2 = 0.5 - math.sqrt(0.05), 0.5 + math.sqrt(0.05)
    want = abs(x(r1)) + abs(x(r2) - x(r1)) + abs(x(1) - x(r2))
    L, e, cap = Q.length(("P", [(0, 0), (20, 0), (-10, 0), (10, 0)]))
    assert near(L, want, 1e-9), (L, want)
    # cubic that is a straight line with uniform speed
    L, e, cap = Q.length(("P", [(0, 0), (1, 1), (2, 2), (3, 3)]))
    assert near(L, 3 * math.sqrt(2))
    # quadratic that turns back within the first 0.03 % of its parameter range (speed minimum at t = 3e-4): value from the closed form
    # evaluated with 50-digit decimals.  (A plain grid search for speed minima misses the first cell: seen on the thorough tier of C15.)
    L, e, cap = Q.length(("P", [(-15.125493514369573, -7.187238500585771), (-15.01236551137359, -7.283303935008953), (-380.7444271956622, 303.2870982441479)]))
    assert near(L, 479.65780145317995, 1e-9), L
    # near-collinear quadratic turning back at t = 0.25: (0,0) (-1, 1e-9) (2, 0): about 0.25 back and 2.25 forward
    L, e, cap = Q.length(("P", [(0.0, 0.0), (-1.0, 1e-9), (2.0, 0.0)]))
    assert near(L, 2.5, 1e-6), L


@check
def shaperef_examples():
    from .ref import bboxref as B
    from .ref import shaperef as H

    # SVG 2 10.2 radii rules
    assert H.resolve_rect_radii(100, 40, None, None) == (0.0, 0.0)
    assert H.resolve_rect_radii(100, 40, 10, None) == (10.0, 10.0)
    assert H.resolve_rect_radii(100, 40, None, 15) == (15.0, 15.0)
    assert H.resolve_rect_radii(100, 40, 80, 30) == (50.0, 20.0)  # clamped to half the sides
    assert H.resolve_rect_radii(100, 40, None, ("%", 25)) == (10.0, 10.0)  # ry 25% of the height, rx auto = ry
    assert H.resolve_rect_radii(100, 40, ("%", 25), None) == (25.0, 20.0)  # rx 25% of the width; ry auto = 25, clamped to half the height
    assert H.resolve_rect_radii(100, 40, 0, 10) == (0.0, 0.0)
    assert H.resolve_rect_radii(100, 40, -5, 10) == (10.0, 10.0)  # negative is invalid -> auto
    # the SVG 2 example rect x=100 y=100 width=400 height=200 rx=50: path M150,100 H450 A50,50 0 0 1 500,150 V250 A... Z
    r = H.equivalent("rect", {"x": 100, "y": 100, "width": 400, "height": 200, "rx": 50, "ry": 50})
    assert "".join(k for k, _ in r) == "MLALALALAZ"
    assert near(B.point(r[0][1], 0), (150, 100)) and near(B.point(r[1][1], 1), (450, 100))
    assert near(B.point(r[2][1], 0), (450, 100)) and near(B.point(r[2][1], 1), (500, 150)) and near(B.point(r[2][1], 0.5), (450 + 50 * math.cos(math.pi / 4), 150 - 50 * math.sin(math.pi / 4)))
    assert near(B.point(r[4][1], 1), (450, 300)) and near(B.point(r[6][1], 1), (100, 250)) and near(B.point(r[8][1], 1), (150, 100))
    # circle: starts at cx+r, first arc ends at (cx, cy+r)
    c = H.equivalent("circle", {"cx": 10, "cy": 20, "r": 5})
    assert "".join(k for k, _ in c) == "MAAAAZ" and near(B.point(c[0][1], 0), (15, 20)) and near(B.point(c[1][1], 1), (10, 25)) and near(B.point(c[2][1], 1), (5, 20)) and near(B.point(c[4][1], 1), (15, 20))
    assert H.equivalent("rect", {"x": 0, "y": 0, "width": 0, "height": 5}) == [] and H.equivalent("ellipse", {"cx": 0, "cy": 0, "rx": 3, "ry": 0}) == []
    assert "".join(k for k, _ in H.equivalent("polygon", {"points": [(0, 0), (1, 0), (1, 1)]})) == "MLLZ"
    assert "".join(k for k, _ in H.equivalent("polyline", {"points": [(0, 0)]})) == "M"


@check
def viewportref_examples():
    from .ref import viewportref as V

    # SVG 1.1 7.8 example: viewBox 0 0 1500 1000 in a 300 x 200 viewport, none -> scale(0.2)
    assert near(V.transform(0, 0, 300, 200, (0, 0, 1500, 1000), ("none", None)), (0.2, 0, 0, 0.2, 0, 0))
    # preserveAspectRatio examples of SVG 1.1 7.8 (figure): a 30x40 smiley viewBox in a 50x30 viewport
    vb = (0, 0, 30, 40)
    assert near(V.transform(0, 0, 50, 30, vb, ("xMinYMin", "meet")), (0.75, 0, 0, 0.75, 0, 0))
    assert near(V.transform(0, 0, 50, 30, vb, ("xMidYMid", "meet")), (0.75, 0, 0, 0.75, (50 - 22.5) / 2, 0))
    assert near(V.transform(0, 0, 50, 30, vb, ("xMaxYMax", "meet")), (0.75, 0, 0, 0.75, 50 - 22.5, 0))
    s = 50 / 30.0
    assert near(V.transform(0, 0, 50, 30, vb, ("xMinYMid", "slice")), (s, 0, 0, s, 0, (30 - 40 * s) / 2))
    assert near(V.transform(0, 0, 50, 30, vb, ("xMinYMax", "slice")), (s, 0, 0, s, 0, 30 - 40 * s))
    assert near(V.transform(0, 0, 50, 30, vb, None), V.transform(0, 0, 50, 30, vb, ("xMidYMid", "meet")))
    # the viewBox origin maps to the viewport origin (minus alignment)
    assert near(V.transform(10, 20, 100, 100, (-50, -20, 100, 100), ("xMinYMin", "meet")), (1, 0, 0, 1, 60, 40))
    assert V.transform(0, 0, 10, 10, None) == (1.0, 0.0, 0.0, 1.0, 0.0, 0.0)
    assert V.transform(0, 0, 10, 10, (0, 0, 0, 5)) is None and len(V.ALIGNS) == 10


@check
def lengthref_examples():
    from fractions import Fraction as F
    from .ref import lengthref as L

    assert L.resolve(1, "in", {"ppi": 96}) == 96 and L.resolve(2.54, "cm", {"ppi": 96}) == 96 and L.resolve(25.4, "mm", {"ppi": 96}) == 96
    assert L.resolve(3, "pt") == 4 and L.resolve(1, "pc") == 16 and L.resolve(7, "px") == 7 and L.resolve(7, "") == 7
    assert L.resolve(1, "in") is None and L.resolve(50, "%") is None and L.resolve(2, "em") is None and L.resolve(1, "vw") is None
    assert L.resolve(50, "%", {"relative_length": 300}) == 150
    assert L.resolve(50, "%", {"relative_length": (2, "in"), "ppi": 72}) == 72 and L.resolve(50, "%", {"relative_length": (2, "in")}) is None
    assert L.resolve(2, "em", {"font_size": 12}) == 24 and L.resolve(2, "ex", {"font_height": 5}) == 10
    vb = (0, 0, 200, 50)
    assert L.resolve(10, "vw", {"viewbox": vb}) == 20 and L.resolve(10, "vh", {"viewbox": vb}) == 5 and L.resolve(10, "vmin", {"viewbox": vb}) == 5 and L.resolve(10, "vmax", {"viewbox": vb}) == 20
    c = L.common("pt", "pc")
    assert c(12, "pt") == c(1, "pc") and L.common("in", "px") is None and L.common("em", "em") is not None and L.common("em", "ex") is None
    assert len(L.UNITS) == 14


@check
def colorref_examples():
    from .ref import colorref as C

    assert len(C.KEYWORDS) == 147, len(C.KEYWORDS)
    for k, v in C.BASIC.items():
        assert C.KEYWORDS[k] == v, k
    # grey/gray pairs are identical, aqua/cyan and fuchsia/magenta too
    for k in list(C.KEYWORDS):
        if "grey" in k:
            assert C.KEYWORDS[k] == C.KEYWORDS[k.replace("grey", "gray")], k
    assert C.KEYWORDS["aqua"] == C.KEYWORDS["cyan"] and C.KEYWORDS["fuchsia"] == C.KEYWORDS["magenta"]
    assert C.KEYWORDS["aliceblue"] == 0xF0F8FF and C.KEYWORDS["rebeccapurple" if False else "indigo"] == 0x4B0082
    # CSS 3 colour examples: hsl(120,100%,50%) is lime, hsl(120,100%,25%) is dark green #008000, hsl(0,100%,50%) red
    assert near(C.hsl(120, 100, 50), (0, 255, 0)) and near(C.hsl(120, 100, 25), (0, 127.5, 0)) and near(C.hsl(0, 100, 50), (255, 0, 0))
    assert near(C.hsl(480, 100, 50), (0, 255, 0)) and near(C.hsl(-240, 100, 50), (0, 255, 0)) and near(C.hsl(30, -5, 40), (102, 102, 102))
    assert C.rgb_int(300, -5, 7) == (255, 0, 7) and near(C.rgb_percent(110, -5, 50), (255, 0, 127.5)) and C.alpha(1.5) == 255 and C.alpha(-1) == 0


def main():
    failed = 0
    for f in CHECKS:
        try:
            f()
            print("self-check ok: %s" % f.__name__)
        except Exception as e:  # noqa
            failed += 1
            print("self-check FAILED: %s: %r" % (f.__name__, e))
    return 1 if failed else 0


if __name__ == "__main__":
    sys.exit(main())
