"""Abstract transform lists and their spellings."""
import math

from .numbers import WS, spell

ANG_UNITS = ["deg", "grad", "rad", "turn", ""]
LEN_NOW = ["", "px", "pt", "pc"]
LEN_PPI = ["in", "cm", "mm"]


def _num(R, small=False):
    k = R.random()
    if k < 0.1:
        return 0.0
    if k < 0.5:
        return float(R.randint(-9, 9))
    if small:
        return round(R.uniform(-3, 3), 3)
    return round(R.uniform(-50, 50), R.randint(0, 4))


def _scale(R):
    v = R.choice([1.0, -1.0, 2.0, 0.5, -0.5, round(R.uniform(0.2, 4), 3), -round(R.uniform(0.2, 4), 3)])
    return v


def angle(R, skew=False):
    u = R.choice(ANG_UNITS)
    deg = R.choice([0, 30, 45, 90, -90, 180, 270, 360, -400, 15, round(R.uniform(-720, 720), 3)])
    if skew:
        # keep tan() well conditioned
        deg = R.choice([0, 15, 30, -30, 45, -45, 60, round(R.uniform(-70, 70), 2)])
    if u in ("deg", ""):
        v = float(deg)
    elif u == "grad":
        v = round(deg / 0.9, 4)
    elif u == "rad":
        v = round(math.radians(deg), 6)
    else:
        v = round(deg / 360.0, 6)
    return [v, u]


def length(R, units=LEN_NOW):
    return [_num(R), R.choice(units)]


KINDS = [
    "matrix", "translate", "translate1", "translatex", "translatey", "scale", "scale1", "scalex", "scaley",
    "rotate", "rotatec", "skew", "skewx", "skewy",
]


def fn(R, kind=None, units=LEN_NOW):
    k = kind or R.choice(KINDS)
    if k == "matrix":
        while True:
            v = [_num(R, True) for _ in range(6)]
            if abs(v[0] * v[3] - v[1] * v[2]) > 0.05:
                break
        return {"fn": "matrix", "args": [[x, ""] for x in v]}
    if k == "translate":
        return {"fn": "translate", "args": [length(R, units), length(R, units)]}
    if k == "translate1":
        return {"fn": "translate", "args": [length(R, units)]}
    if k == "translatex":
        return {"fn": "translateX", "args": [length(R, units)]}
    if k == "translatey":
        return {"fn": "translateY", "args": [length(R, units)]}
    if k == "scale":
        return {"fn": "scale", "args": [[_scale(R), ""], [_scale(R), ""]]}
    if k == "scale1":
        return {"fn": "scale", "args": [[_scale(R), ""]]}
    if k == "scalex":
        return {"fn": "scaleX", "args": [[_scale(R), ""]]}
    if k == "scaley":
        return {"fn": "scaleY", "args": [[_scale(R), ""]]}
    if k == "rotate":
        return {"fn": "rotate", "args": [angle(R)]}
    if k == "rotatec":
        return {"fn": "rotate", "args": [angle(R), length(R, LEN_NOW), length(R, LEN_NOW)]}
    if k == "skew":
        return {"fn": "skew", "args": [angle(R, True), angle(R, True)]}
    if k == "skew1":
        return {"fn": "skew", "args": [angle(R, True)]}
    if k == "skewx":
        return {"fn": "skewX", "args": [angle(R, True)]}
    if k == "skewy":
        return {"fn": "skewY", "args": [angle(R, True)]}
    raise ValueError(k)


def rcase(R, s):
    k = R.random()
    if k < 0.5:
        return s
    if k < 0.65:
        return s.lower()
    if k < 0.8:
        return s.upper()
    return "".join(c.upper() if R.random() < 0.4 else c.lower() for c in s)


def spell_fn(R, f, plain=False):
    name = f["fn"] if plain else rcase(R, f["fn"])
    s = name + ("" if plain else R.choice(["", "", " "])) + "(" + ("" if plain else R.choice(["", " "]))
    for i, (v, u) in enumerate(f["args"]):
        tok = (repr(float(v)) if plain else spell(R, v, allow_plus=False)) + (u if plain else rcase(R, u))
        if i:
            if plain:
                s += ","
            elif tok[0] == "-" and R.random() < 0.3:
                s += ""
            else:
                s += R.choice([",", " ", " , ", "\t", ", ", "\n"])
        s += tok
    s += ("" if plain else R.choice(["", " "])) + ")"
    return s


def spell_list(R, fns, plain=False):
    parts = [spell_fn(R, f, plain) for f in fns]
    if plain:
        return " ".join(parts)
    j = R.choice([" ", ",", " , ", "", "\n", "  "])
    return R.choice(["", " "]) + j.join(parts) + R.choice(["", " "])


def affine(R, kind=None):
    """a random invertible matrix (tuple) of a named class, cond <= ~400"""
    k = kind or R.choice(["identity", "translate", "rotate", "uniform", "reflect", "aniso", "rot-aniso", "aniso-rot", "shear", "general", "general-neg"])
    c = lambda: R.choice([0.0, float(R.randint(-50, 50)), round(R.uniform(-1000, 1000), 3)])
    if k == "identity":
        return k, (1.0, 0.0, 0.0, 1.0, 0.0, 0.0)
    if k == "translate":
        return k, (1.0, 0.0, 0.0, 1.0, c(), c())
    th = R.choice([math.pi / 2, math.pi, -math.pi / 2, math.pi / 6, R.uniform(-math.pi, math.pi)])
    ct, st = math.cos(th), math.sin(th)
    if k == "rotate":
        return k, (ct, st, -st, ct, c(), c())
    if k == "uniform":
        s = R.choice([2.0, 0.5, R.uniform(0.05, 20)])
        return k, (s * ct, s * st, -s * st, s * ct, c(), c())
    if k == "extreme":
        # a similarity (optionally mirrored) far from unit scale: determinants down to 1e-14 and up to 1e8, condition 1
        s = R.choice([R.uniform(1e-7, 1e-6), R.uniform(1e-6, 1e-4), R.uniform(1e2, 1e4)])
        if R.random() < 0.6:
            return k, (s * ct, s * st, s * st, -s * ct, c(), c())
        return k, (s * ct, s * st, -s * st, s * ct, c(), c())
    if k == "reflect":
        which = R.random()
        if which < 0.3:
            return k, (-1.0, 0.0, 0.0, 1.0, c(), c())
        if which < 0.5:
            return k, (0.0, 1.0, 1.0, 0.0, c(), c())
        s = R.uniform(0.2, 5)
        return k, (s * ct, s * st, s * st, -s * ct, c(), c())
    if k == "aniso":
        sx = R.uniform(0.1, 10) * R.choice([1, 1, -1])
        sy = R.uniform(0.1, 10) * R.choice([1, 1, -1])
        return k, (sx, 0.0, 0.0, sy, c(), c())
    if k == "rot-aniso":
        sx = R.uniform(0.2, 8)
        sy = R.uniform(0.2, 8) * R.choice([1, 1, -1])
        # scale first, then rotate
        return k, (sx * ct, sx * st, -sy * st, sy * ct, c(), c())
    if k == "aniso-rot":
        # rotate first, then scale along the axes: the rows stay perpendicular, the images of the axes do not
        sx = R.uniform(0.2, 8)
        sy = R.uniform(0.2, 8) * R.choice([1, 1, -1])
        return k, (sx * ct, sy * st, -sx * st, sy * ct, c(), c())
    if k == "shear":
        sh = R.uniform(-3, 3)
        if R.random() < 0.5:
            return k, (1.0, 0.0, sh, 1.0, c(), c())
        return k, (1.0, sh, 0.0, 1.0, c(), c())
    while True:
        a, b, cc, d = (R.uniform(-5, 5) for _ in range(4))
        det = a * d - b * cc
        s1 = a * a + b * b + cc * cc + d * d
        if abs(det) < 1e-3:
            continue
        disc = max(s1 * s1 - 4 * det * det, 0.0)
        big = math.sqrt((s1 + math.sqrt(disc)) / 2)
        cond = big * big / abs(det)
        if cond > 400:
            continue
        if (k == "general-neg") != (det < 0):
            a, b = -a, -b
        return k, (a, b, cc, d, c(), c())
