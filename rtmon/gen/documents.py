"""Abstract SVG documents (plain data) and their XML text.

node = {"tag", "id", "geom": {attr: [value, unit]}, "tf": [transform fns] | None, "tftext": str, "attrs": {extra xml attrs},
        "children": [...], and per tag: "prog" (path), "points" (poly*), "vb"/"par" (svg), "href" (use)}
Everything the reference evaluator needs is in the abstract node; the XML text is only what the library reads.
"""
from xml.sax.saxutils import quoteattr

from . import pathdata as PD
from . import transforms as GT

NS = "http://www.w3.org/2000/svg"
XL = "http://www.w3.org/1999/xlink"
SHAPES = ["rect", "circle", "ellipse", "line", "polyline", "polygon", "path"]


class Gen:
    def __init__(self, R, opts=None):
        self.R = R
        o = {"units": 0.25, "percent": 0.15, "transforms": 0.5, "nested_svg": 0.25, "use": 0.3, "hidden": 0.1, "depth": 3, "paint": 0.0,
             "omit_defaults": 0.3, "shape_tf": 0.4, "root_viewbox": 0.5, "max_children": 3}
        o.update(opts or {})
        self.o = o
        self.n = 0
        self.targets = []  # ids that a use may reference
        self.all_ids = []

    def nid(self):
        self.n += 1
        i = "e%d" % self.n
        self.all_ids.append(i)
        return i

    # ---- values ----
    def num(self, lo=-60, hi=60):
        R = self.R
        k = R.random()
        if k < 0.15:
            return 0.0
        if k < 0.6:
            return float(R.randint(lo, hi))
        return round(R.uniform(lo, hi), 3)

    def pos(self, hi=50):
        R = self.R
        return float(R.randint(1, hi)) if R.random() < 0.6 else round(R.uniform(0.5, hi), 3)

    def length(self, v, axis="x", allow_percent=True):
        """[value, unit] whose user-unit value is about v (units chosen at random; percentages mean what they mean)"""
        R = self.R
        k = R.random()
        if k < self.o["units"]:
            u = R.choice(["px", "pt", "pc", "in", "cm", "mm"])
            f = {"px": 1.0, "pt": 4.0 / 3.0, "pc": 16.0, "in": 96.0, "cm": 96.0 / 2.54, "mm": 96.0 / 25.4}[u]
            return [round(v / f, 4), u]
        if allow_percent and k < self.o["units"] + self.o["percent"]:
            return [float(R.choice([5, 10, 20, 25, 50, 75])) if R.random() < 0.7 else round(R.uniform(1, 90), 2), "%"]
        return [v, ""]

    def transform(self):
        R = self.R
        fns = [GT.fn(R, R.choice(["translate", "translate1", "scale", "scale1", "rotate", "rotatec", "skewx", "skewy", "matrix", "scalex"])) for _ in range(R.randint(1, 3))]
        return fns, GT.spell_list(R, fns)  # (GT.fn never yields a singular function)

    # ---- elements ----
    def shape(self, kind=None):
        R = self.R
        kind = kind or R.choice(SHAPES)
        n = {"tag": kind, "id": self.nid(), "geom": {}, "children": [], "attrs": {}}
        om = lambda: R.random() < self.o["omit_defaults"]
        g = n["geom"]
        if kind == "rect":
            if not om():
                g["x"] = self.length(self.num(), "x")
            if not om():
                g["y"] = self.length(self.num(), "y")
            g["width"] = self.length(self.pos(), "x")
            g["height"] = self.length(self.pos(), "y")
            w = R.random()
            # (percentages of rx / ry are not generated: the library resolves them against the rect's own size, C06's subject)
            if w < 0.2:
                g["rx"] = self.length(self.pos(40), "x", False)
                g["ry"] = self.length(self.pos(40), "y", False)
            elif w < 0.3:
                g["rx"] = self.length(self.pos(40), "x", False)
            elif w < 0.4:
                g["ry"] = self.length(self.pos(40), "y", False)
        elif kind == "circle":
            if not om():
                g["cx"] = self.length(self.num(), "x")
            if not om():
                g["cy"] = self.length(self.num(), "y")
            g["r"] = self.length(self.pos(), "d")
        elif kind == "ellipse":
            if not om():
                g["cx"] = self.length(self.num(), "x")
            if not om():
                g["cy"] = self.length(self.num(), "y")
            g["rx"] = self.length(self.pos(), "x")
            g["ry"] = self.length(self.pos(), "y")
        elif kind == "line":
            for k, ax in (("x1", "x"), ("y1", "y"), ("x2", "x"), ("y2", "y")):
                if not om():
                    g[k] = self.length(self.num(), ax)
        elif kind in ("polyline", "polygon"):
            n["points"] = [[self.num(), self.num()] for _ in range(R.randint(1, 5))]
        else:
            n["prog"] = PD.program(R, maxcmd=5, letters="MmLlHhVvCcSsQqTtZz", zprob=0.05, num=lambda r: self.num())
        if R.random() < self.o["shape_tf"]:
            n["tf"], n["tftext"] = self.transform()
        return n

    def container(self, depth):
        R = self.R
        kinds = ["g", "g", "g"]
        if R.random() < self.o["nested_svg"]:
            kinds.append("svg")
        if R.random() < self.o["use"] and self.targets:
            kinds.append("use")
            kinds.append("use")
        if R.random() < self.o["hidden"]:
            kinds.append("hidden")
        kind = R.choice(kinds)
        if kind == "use":
            n = {"tag": "use", "id": self.nid(), "geom": {}, "children": [], "attrs": {}, "href": R.choice(self.targets), "xlink": R.random() < 0.5}
            if R.random() < 0.6:
                n["geom"]["x"] = self.length(self.num(), "x")
            if R.random() < 0.6:
                n["geom"]["y"] = self.length(self.num(), "y")
            if R.random() < self.o["transforms"]:
                n["tf"], n["tftext"] = self.transform()
            if R.random() < 0.3:
                self.targets.append(n["id"])  # use of a use
            return n
        if kind == "svg":
            n = {"tag": "svg", "id": self.nid(), "geom": {}, "children": [], "attrs": {}, "vb": None, "par": None}
            if R.random() < 0.7:
                n["geom"]["x"] = self.length(self.num(), "x", False)
                n["geom"]["y"] = self.length(self.num(), "y", False)
            if R.random() < 0.85:
                n["geom"]["width"] = self.length(self.pos(80), "x")
            if R.random() < 0.85:
                n["geom"]["height"] = self.length(self.pos(80), "y")
            if R.random() < 0.6:
                n["vb"] = [self.num(-30, 30), self.num(-30, 30), self.pos(80), self.pos(80)]
                if R.random() < 0.5:
                    n["par"] = R.choice(["none", "xMinYMin", "xMaxYMid slice", "xMidYMax meet", "xMinYMax slice"])
            if R.random() < 0.2:
                n["tf"], n["tftext"] = self.transform()
        elif kind == "hidden":
            n = {"tag": "g", "id": self.nid(), "geom": {}, "children": [], "attrs": {"display": "none"}, "hidden": True}
        else:
            n = {"tag": "g", "id": self.nid(), "geom": {}, "children": [], "attrs": {}}
            if R.random() < self.o["transforms"]:
                n["tf"], n["tftext"] = self.transform()
        for _ in range(R.randint(1, self.o["max_children"])):
            n["children"].append(self.container(depth - 1) if depth > 0 and R.random() < 0.35 else self.shape())
        if kind == "g" and not n.get("hidden"):
            self.targets.append(n["id"])
        return n

    def document(self):
        R = self.R
        root = {"tag": "svg", "id": self.nid(), "geom": {}, "children": [], "attrs": {}, "vb": None, "par": None, "root": True}
        w, h = self.pos(300) + 20, self.pos(300) + 20
        root["geom"]["width"] = self.length(w, "x", False)
        root["geom"]["height"] = self.length(h, "y", False)
        if R.random() < self.o["root_viewbox"]:
            root["vb"] = [self.num(-30, 30), self.num(-30, 30), self.pos(200), self.pos(200)]
            if R.random() < 0.5:
                root["par"] = R.choice(["none", "xMinYMax", "xMidYMid slice", "xMaxYMin meet"])
        if R.random() < 0.15:
            root["tf"], root["tftext"] = self.transform()
        defs = {"tag": "defs", "id": self.nid(), "geom": {}, "children": [], "attrs": {}}
        for _ in range(R.randint(1, 3)):
            s = self.shape()
            defs["children"].append(s)
            self.targets.append(s["id"])
        if R.random() < 0.5:
            g = {"tag": "g", "id": self.nid(), "geom": {}, "children": [self.shape(), self.shape()], "attrs": {}}
            if R.random() < 0.5:
                g["tf"], g["tftext"] = self.transform()
            defs["children"].append(g)
            self.targets.append(g["id"])
        k = R.random()
        if k < 0.65:
            root["children"].append(defs)
        elif k > 0.85:
            self.targets = []
        for _ in range(R.randint(1, 4)):
            root["children"].append(self.container(self.o["depth"] - 1) if R.random() < 0.6 else self.shape())
        if 0.65 <= k <= 0.85:
            root["children"].append(defs)  # forward references
        if R.random() < 0.2 and root["children"][-1]["tag"] in SHAPES:
            # a shape outside defs that is also referenced
            self.targets.append(root["children"][-1]["id"])
            u = {"tag": "use", "id": self.nid(), "geom": {"x": [self.num(), ""]}, "children": [], "attrs": {}, "href": root["children"][-1]["id"], "xlink": False}
            root["children"].append(u)
        return root


def generate(R, opts=None):
    g = Gen(R, opts)
    return g.document()


# ---- XML text ----------------------------------------------------------------------------------------------------

def ltxt(l):
    return "%r%s" % (l[0], l[1])


def node_attrs(n):
    a = []
    if n.get("root"):
        a.append(("xmlns", NS))
        a.append(("xmlns:xlink", XL))
    if n.get("id"):
        a.append(("id", n["id"]))
    for k, v in n.get("geom", {}).items():
        a.append((k, ltxt(v)))
    if n.get("vb") is not None:
        a.append(("viewBox", "%r %r %r %r" % tuple(n["vb"])))
    if n.get("par"):
        a.append(("preserveAspectRatio", n["par"]))
    if n.get("points") is not None:
        a.append(("points", " ".join("%r,%r" % (p[0], p[1]) for p in n["points"])))
    if n.get("prog") is not None:
        a.append(("d", n.get("dtext") or PD.spell_program(None, n["prog"], plain=True)))
    if n.get("href") is not None:
        a.append(("xlink:href" if n.get("xlink") else "href", "#" + n["href"]))
    if n.get("tftext"):
        a.append(("transform", n["tftext"]))
    for k, v in n.get("attrs", {}).items():
        a.append((k, v))
    return a


def to_xml(n, override=None):
    """override: {node id: {attr: text or None}} replaces / removes attribute texts (fault injection)"""
    attrs = node_attrs(n)
    if override and n.get("id") in override:
        ov = override[n["id"]]
        attrs = [(k, ov[k]) if k in ov else (k, v) for k, v in attrs if not (k in ov and ov[k] is None)]
        have = {k for k, _ in attrs}
        attrs += [(k, v) for k, v in ov.items() if k not in have and v is not None]
    s = "<%s%s" % (n["tag"], "".join(" %s=%s" % (k, quoteattr(v)) for k, v in attrs))
    inner = "".join(to_xml(c, override) for c in n.get("children", []))
    if n.get("style_text"):
        inner = "<style>%s</style>" % n["style_text"] + inner
    if n.get("text") is not None:
        inner += n["text"]
    if inner:
        return s + ">" + inner + "</%s>" % n["tag"]
    return s + "/>"


def walk(n):
    yield n
    for c in n.get("children", []):
        yield from walk(c)


def find(root, i):
    for n in walk(root):
        if n.get("id") == i:
            return n
    return None


def remove_ids(root, ids):
    """a deep copy of the tree without the subtrees of the given ids"""
    import copy as _c

    def rec(n):
        m = {k: v for k, v in n.items() if k != "children"}
        m["children"] = [rec(c) for c in n.get("children", []) if c.get("id") not in ids]
        return m
    return rec(_c.deepcopy(root))


# ---- paint attributes (presentation attributes only; style sheets are gen/styles.py) ---------------------------------

COLOURS = ["red", "#00f", "#12ab34", "rgb(10,200,30)", "rgb(10%, 20%, 30%)", "none", "black", "hsl(120, 50%, 40%)", "#fa08", "Blue", "currentColor", "rgba(1,2,3,0.5)", "#12345600", "rgba(9,8,7,0)"]


def add_paint(R, root, prob=0.3):
    """presentation attributes fill / stroke / stroke-width / opacities / color on random elements"""
    for n in walk(root):
        if n["tag"] == "defs":
            continue
        a = n.setdefault("attrs", {})
        if R.random() < prob:
            a["fill"] = R.choice(COLOURS)
        if R.random() < prob:
            a["stroke"] = R.choice(COLOURS)
        if R.random() < prob:
            a["stroke-width"] = R.choice(["2", "0.5", "3px", "1pt", "0", "4.25"])
        if R.random() < prob / 3:
            a["fill-opacity"] = R.choice(["0.5", "1", "0", ".25"])
        if R.random() < prob / 3:
            a["stroke-opacity"] = R.choice(["0.5", "1", "0", ".75"])
        if R.random() < prob / 3:
            a["color"] = R.choice(["green", "#abc", "rgb(1,2,3)"])
        if R.random() < 0.3:
            # the same declarations through an inline style attribute instead (it overrides presentation attributes on the way back in)
            moved = [(k, a.pop(k)) for k in ("fill", "stroke", "stroke-width", "fill-opacity", "stroke-opacity") if k in a and R.random() < 0.7]
            if moved:
                a["style"] = ";".join("%s:%s" % kv for kv in moved)
    return root


def subtree_ids(n):
    return {m["id"] for m in walk(n) if m.get("id")}


def parent_map(root):
    pm = {}
    for n in walk(root):
        for c in n.get("children", []):
            pm[c["id"]] = n
    return pm
