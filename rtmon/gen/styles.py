"""Style information for abstract documents (C14): presentation attributes, class lists, inline styles and a style sheet.

Adds to nodes:  n["attrs"][prop] (presentation attribute text), n["klass"] = [class names], n["inline"] = [(prop, text)],
and to the root: root["rules"] = [{"sels": [selector text], "decls": [(prop, text)]}] in source order, root["style_text"].
Every value text comes from a table that also gives its meaning, so the reference needs no CSS value parser.
"""
from . import documents as GD

# text -> (r, g, b, a) or None for 'none'
COLOURS = [
    ("red", (255, 0, 0, 255)), ("#00f", (0, 0, 255, 255)), ("#12ab34", (0x12, 0xAB, 0x34, 255)), ("rgb(10,200,30)", (10, 200, 30, 255)),
    ("rgb(10%, 20%, 40%)", (26, 51, 102, 255)), ("none", None), ("black", (0, 0, 0, 255)), ("hsl(120, 100%, 50%)", (0, 255, 0, 255)),
    ("#fa08", (0xFF, 0xAA, 0x00, 0x88)), ("Blue", (0, 0, 255, 255)), ("rgba(1,2,3,0.5)", (1, 2, 3, 128)), ("#abcdef", (0xAB, 0xCD, 0xEF, 255)),
    ("tomato", (255, 99, 71, 255)), ("#0a0b0c", (10, 11, 12, 255)), ("rgb(255,255,0)", (255, 255, 0, 255)), ("teal", (0, 128, 128, 255)),
    ("#123", (0x11, 0x22, 0x33, 255)), ("orange", (255, 165, 0, 255)), ("#808080", (128, 128, 128, 255)), ("indigo", (75, 0, 130, 255)),
]
OPAQUE = [c for c in COLOURS if c[1] is not None and c[1][3] == 255]
WIDTHS = [("2", 2.0), ("0.5", 0.5), ("3px", 3.0), ("1.5pt", 2.0), ("0", 0.0), ("4.25", 4.25), ("1pc", 16.0), ("7", 7.0), ("0.125", 0.125), ("10", 10.0), ("1.75", 1.75), ("6px", 6.0), ("5%", ("%", 5.0)), ("2.5%", ("%", 2.5))]
OPACITIES = [("0.5", 0.5), ("1", 1.0), ("0", 0.0), (".25", 0.25), ("0.75", 0.75), ("0.1", 0.1), ("0.9", 0.9)]
PROPS = ["fill", "stroke", "stroke-width", "fill-opacity", "stroke-opacity", "color"]
SOURCES = ["attr", "*", "type", ".class", "type.class", "#id", "list", "inline"]
MEANING = {}
for _t, _v in COLOURS:
    MEANING[("colour", _t)] = _v
MEANING[("colour", "currentColor")] = "current"
for _t, _v in WIDTHS:
    MEANING[("width", _t)] = _v
for _t, _v in OPACITIES:
    MEANING[("opacity", _t)] = _v
MEANING[("width", "1")] = 1.0  # the initial value


def kind_of(prop):
    return {"fill": "colour", "stroke": "colour", "color": "colour", "stroke-width": "width", "fill-opacity": "opacity", "stroke-opacity": "opacity"}.get(prop)


def value_pool(prop):
    k = kind_of(prop)
    if prop == "color":
        return [t for t, _ in OPAQUE]
    if k == "colour":
        return [t for t, _ in COLOURS] + ["currentColor", "currentColor"]
    if k == "width":
        return [t for t, _ in WIDTHS]
    return [t for t, _ in OPACITIES]


class Styler:
    def __init__(self, R, root, opts=None):
        self.R = R
        self.root = root
        o = {"density": 0.35, "sources": SOURCES, "display": 0.03, "vector_effect": 0.1, "important_pairs": None, "comments": 0.3}
        o.update(opts or {})
        self.o = o
        self.rules = []
        self.classes = ["c%d" % i for i in range(1, 6)]

    def distinct(self, prop, used):
        pool = [v for v in value_pool(prop) if v not in used]
        v = self.R.choice(pool)
        used.add(v)
        return v

    def add_rule(self, sels, decls):
        self.rules.append({"sels": list(sels), "decls": list(decls)})

    def source(self, n, prop, src, used):
        """make `src` set `prop` on element n (with a value not used by a competing source of the same element)"""
        R = self.R
        v = self.distinct(prop, used)
        if n.get("root") and src not in ("attr", "inline"):
            # the sheet sits inside the outermost svg: the library (documented) applies rules only to elements after the sheet
            src = R.choice(["attr", "inline"])
            if (src == "attr" and prop in n.get("attrs", {})) or (src == "inline" and any(p == prop for p, _ in n.get("inline", []))):
                return
        if n["tag"] == "svg" and src in ("type", "type.class"):
            src = "#id"  # a type rule for svg would also address the outermost svg
        if src == "attr":
            n.setdefault("attrs", {})[prop] = v
        elif src == "inline":
            n.setdefault("inline", []).append((prop, v))
        elif src == "*":
            # a universal rule styles every element: keep it rare and for one property only
            self.add_rule(["*"], [(prop, v)])
        elif src == "type":
            self.add_rule([n["tag"]], [(prop, v)])
        elif src == "#id":
            self.add_rule(["#" + n["id"]], [(prop, v)])
        elif src in (".class", "type.class"):
            kl = n.setdefault("klass", [])
            if not kl or R.random() < 0.4:
                c = R.choice(self.classes)
                if c not in kl:
                    kl.append(c)
            c = R.choice(kl)
            self.add_rule([("." + c) if src == ".class" else (n["tag"] + "." + c)], [(prop, v)])
        elif src == "list":
            other = R.choice(["#nobody", ".unused", "title", n["tag"], "#" + n["id"]])
            sels = [other, "#" + n["id"]] if R.random() < 0.5 else ["#" + n["id"], other]
            self.add_rule(sels, [(prop, v)])

    def run(self):
        R, o = self.R, self.o
        nodes = [n for n in GD.walk(self.root) if n["tag"] != "defs"]
        for n in nodes:
            if R.random() > o["density"] and not n.get("root"):
                continue
            for prop in PROPS:
                if R.random() < 0.45:
                    k = R.choice([1, 1, 2, 2, 3])
                    srcs = R.sample(o["sources"], min(k, len(o["sources"])))
                    if "*" in srcs and R.random() < 0.7:
                        srcs.remove("*")
                    used = set()
                    for s in srcs:
                        self.source(n, prop, s, used)
            if n["tag"] in GD.SHAPES and R.random() < o["vector_effect"]:
                n.setdefault("attrs", {})["vector-effect"] = "non-scaling-stroke"
            if R.random() < o["display"] and not n.get("root"):
                how = R.choice(["attr", "inline", "#id"])
                if how == "attr":
                    n.setdefault("attrs", {})["display"] = "none"
                elif how == "inline":
                    n.setdefault("inline", []).append(("display", "none"))
                else:
                    self.add_rule(["#" + n["id"]], [("display", "none")])
        if o.get("pair"):
            self.force_pair(*o["pair"])
        R.shuffle(self.rules)
        # merge some neighbouring single-declaration rules of the same selector list? keep them separate: order is the subject
        self.root["rules"] = self.rules
        self.root["style_text"] = self.spell()
        for n in nodes:
            a = n.setdefault("attrs", {})
            if n.get("klass"):
                a["class"] = " ".join(n["klass"])
            if n.get("inline"):
                a["style"] = self.spell_decls(n["inline"], inline=True)
        return self.root

    def force_pair(self, a, b):
        """one shape on which source kinds a and b compete for fill (the complete 8x8 stratum)"""
        shapes = [n for n in GD.walk(self.root) if n["tag"] in GD.SHAPES]
        if not shapes:
            return
        n = self.R.choice(shapes)
        for src in (a, b):
            if src == "attr":
                n.get("attrs", {}).pop("fill", None)
            if src == "inline":
                n["inline"] = [d for d in n.get("inline", []) if d[0] != "fill"]
        used = {v for p, v in n.get("inline", []) if p == "fill"} | ({n["attrs"]["fill"]} if "fill" in n.get("attrs", {}) else set())
        self.source(n, "fill", a, used)
        if b != a or a not in ("attr", "inline"):
            self.source(n, "fill", b, used)
        n["pair_target"] = True

    def spell_decls(self, decls, inline=False):
        R = self.R
        parts = []
        for p, v in decls:
            parts.append("%s%s:%s%s" % (R.choice(["", " "]), p, R.choice(["", " "]), v))
        s = ";".join(parts)
        if R.random() < 0.5:
            s += ";"
        return s

    def spell(self):
        R = self.R
        out = []
        for r in self.rules:
            if R.random() < self.o["comments"]:
                out.append(R.choice(["/* a comment */", "/* fill: red; */", "/* .c1 { stroke: blue } */", "/*\n multi\n line */"]))
            out.append("%s%s{%s}" % ((R.choice([",", ", ", " , "])).join(r["sels"]), R.choice(["", " "]), self.spell_decls(r["decls"])))
        return R.choice(["\n", " ", "\n  "]).join(out)


def decorate(R, root, opts=None):
    return Styler(R, root, opts).run()
