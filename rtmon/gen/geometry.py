"""Abstract geometry: segments, paths and shapes as plain data, plus builders for the real classes.

Segment spec: {"k": kind, ...}
  M: {"k":"M","p":[x,y]}                 (end point)
  L: {"k":"L","s":[x,y],"e":[x,y]}
  Z: {"k":"Z","s":[x,y],"e":[x,y]}
  Q: {"k":"Q","s":..,"c":..,"e":..}
  C: {"k":"C","s":..,"c1":..,"c2":..,"e":..}
  A: endpoint form {"k":"A","arc":[x1,y1,rx,ry,rot_deg,fa,fs,x2,y2]}
     centre form   {"k":"A","carc":[cx,cy,rx,ry,rot_rad,theta1,sweep]}
"""
import math

from .numbers import coord


def pt(R, scale=None):
    if scale is None:
        return [coord(R), coord(R)]
    return [R.uniform(-scale, scale), R.uniform(-scale, scale)]


def _near(R, p, size):
    return [p[0] + R.uniform(-size, size), p[1] + R.uniform(-size, size)]


SEG_STRATA = ["generic", "zero-length", "coincident-controls", "collinear", "near-collinear", "cusp", "tiny", "huge"]


def bezier(R, kind, stratum="generic", start=None):
    """a quadratic ('Q') or cubic ('C') of a named degeneracy class"""
    s = start if start is not None else pt(R)
    size = R.choice([1.0, 10.0, 100.0, R.uniform(0.5, 500)])
    if stratum == "tiny":
        size = 10 ** R.uniform(-3, -1)
    if stratum == "huge":
        size = 10 ** R.uniform(3.5, 4.7)
    n = 3 if kind == "Q" else 4
    if stratum == "zero-length":
        pts = [list(s) for _ in range(n)]
    elif stratum == "coincident-controls":
        e = _near(R, s, size)
        which = R.choice(["start", "end", "both-same", "ends-equal"])
        if which == "ends-equal":
            c = _near(R, s, size)
            pts = [s] + [c] * (n - 2) + [list(s)]
        elif kind == "Q":
            pts = [s, list(s) if which == "start" else list(e), e]
        elif which == "start":
            pts = [s, list(s), _near(R, s, size), e]
        elif which == "end":
            pts = [s, _near(R, s, size), list(e), e]
        else:
            c = _near(R, s, size)
            pts = [s, c, list(c), e]
    elif stratum in ("collinear", "near-collinear"):
        ang = R.uniform(0, 2 * math.pi)
        d = (math.cos(ang), math.sin(ang))
        ts = [0.0] + [R.uniform(-0.5, 1.5) for _ in range(n - 2)] + [1.0]
        if R.random() < 0.3:
            ts = [0.0] + sorted(R.uniform(0, 1) for _ in range(n - 2)) + [1.0]
        off = 0.0 if stratum == "collinear" else size * 10 ** R.uniform(-14, -3)
        pts = [[s[0] + size * t * d[0] - off * (i % 2) * d[1], s[1] + size * t * d[1] + off * (i % 2) * d[0]] for i, t in enumerate(ts)]
    elif stratum == "cusp" and kind == "C":
        # control polygon that crosses itself: a cusp or a loop
        e = _near(R, s, size * 0.2)
        pts = [s, [e[0] + size, e[1] + size * R.uniform(0.5, 1.5)], [s[0] - size, s[1] + size * R.uniform(0.5, 1.5)], e]
    else:
        pts = [s] + [_near(R, s, size) for _ in range(n - 1)]
    if kind == "Q":
        return {"k": "Q", "s": pts[0], "c": pts[1], "e": pts[2]}
    return {"k": "C", "s": pts[0], "c1": pts[1], "c2": pts[2], "e": pts[3]}


ARC_STRATA = ["endpoint", "endpoint-scaled", "half-turn", "near-full", "centre", "centre-multi-turn", "circular", "near-circular", "eccentric", "tiny-sweep", "rot-90"]


def arc(R, stratum="endpoint", start=None):
    s = start if start is not None else pt(R)
    rot = R.choice([0.0, 90.0, 180.0, 270.0, 30.0, -30.0, 45.0, 400.0, round(R.uniform(-360, 360), 3)])
    if stratum == "rot-90":
        rot = R.choice([0.0, 90.0, 180.0, 270.0, -90.0, 360.0])
    fa, fs = R.randint(0, 1), R.randint(0, 1)
    if stratum in ("endpoint", "endpoint-scaled", "half-turn", "rot-90", "eccentric", "circular", "near-circular"):
        chord = R.choice([1.0, 10.0, R.uniform(0.5, 300)])
        ang = R.uniform(0, 2 * math.pi)
        e = [s[0] + chord * math.cos(ang), s[1] + chord * math.sin(ang)]
        if stratum == "endpoint-scaled":
            rx = chord * R.uniform(0.01, 0.45)
            ry = rx * R.uniform(0.3, 3)
        elif stratum == "half-turn":
            rx = ry = chord / 2.0
            if R.random() < 0.5:
                e = [s[0] + chord, s[1]]
        elif stratum == "circular":
            rx = ry = chord * R.uniform(0.55, 5)
        elif stratum == "near-circular":
            rx = chord * R.uniform(0.55, 5)
            ry = rx + R.choice([-1, 1]) * R.choice([1e-13, 1e-11, 1e-9, 1e-6, 1e-4, 1e-3, 5e-3, 2e-2]) * R.choice([1.0, rx])
        elif stratum == "eccentric":
            rx = chord * R.uniform(0.6, 3)
            ry = rx * R.choice([0.01, 0.02, 50.0, 100.0])
        else:
            rx = chord * R.uniform(0.51, 5)
            ry = chord * R.uniform(0.51, 5)
        return {"k": "A", "arc": [s[0], s[1], rx, ry, rot, fa, fs, e[0], e[1]]}
    # centre forms
    rx = R.choice([1.0, 10.0, R.uniform(0.5, 200)])
    ry = rx * R.choice([1.0, 0.5, 2.0, R.uniform(0.1, 10)])
    phi = math.radians(rot)
    th1 = R.uniform(-math.pi, math.pi)
    if stratum == "near-full":
        sweep = R.choice([-1, 1]) * (2 * math.pi - 10 ** R.uniform(-6, -1))
    elif stratum == "centre-multi-turn":
        sweep = R.choice([-1, 1]) * R.uniform(2 * math.pi, 1.9 * 2 * math.pi)
    elif stratum == "tiny-sweep":
        sweep = R.choice([-1, 1]) * 10 ** R.uniform(-3, -1)
    else:
        sweep = R.choice([-1, 1]) * R.uniform(0.05, 2 * math.pi * 0.99)
    # centre so that the arc starts at s
    c, sn = math.cos(phi), math.sin(phi)
    ux, uy = rx * math.cos(th1), ry * math.sin(th1)
    cx, cy = s[0] - (c * ux - sn * uy), s[1] - (sn * ux + c * uy)
    return {"k": "A", "carc": [cx, cy, rx, ry, phi, th1, sweep]}


def carc_point(ca, theta):
    cx, cy, rx, ry, phi, th1, sweep = ca
    c, s = math.cos(phi), math.sin(phi)
    x, y = rx * math.cos(theta), ry * math.sin(theta)
    return (cx + c * x - s * y, cy + s * x + c * y)


def seg_start(spec):
    k = spec["k"]
    if k == "M":
        return None
    if k == "A":
        if "arc" in spec:
            return spec["arc"][:2]
        return list(carc_point(spec["carc"], spec["carc"][5]))
    return spec["s"]


def seg_end(spec):
    k = spec["k"]
    if k == "M":
        return spec["p"]
    if k == "A":
        if "arc" in spec:
            return spec["arc"][7:9]
        ca = spec["carc"]
        return list(carc_point(ca, ca[5] + ca[6]))
    return spec["e"]


def line(R, start=None, zero=False):
    s = start if start is not None else pt(R)
    e = list(s) if zero else _near(R, s, R.choice([1.0, 20.0, 300.0]))
    return {"k": "L", "s": s, "e": e}


def segment(R, kind=None, start=None):
    """a random drawing segment with (kind, stratum) chosen from all classes"""
    k = kind or R.choice(["L", "Q", "C", "A", "A"])
    if k == "L":
        return line(R, start, zero=R.random() < 0.1), "line"
    if k in ("Q", "C"):
        st = R.choice(SEG_STRATA + ["generic", "generic"])
        return bezier(R, k, st, start), st
    st = R.choice(ARC_STRATA)
    return arc(R, st, start), st


def path(R, nsub=None, maxseg=5, kinds=None, closed_prob=0.5, moveless=False):
    """a connected path: list of specs.  Subpaths start with M; with moveless=True a subpath after a close may
    start directly with a drawing segment"""
    specs = []
    n = nsub if nsub is not None else R.randint(1, 3)
    cur = None
    home = None
    for j in range(n):
        if not (moveless and j > 0 and specs and specs[-1]["k"] == "Z" and R.random() < 0.5):
            p = pt(R)
            specs.append({"k": "M", "p": p})
            cur = p
            home = p
        for _ in range(R.randint(0 if R.random() < 0.1 else 1, maxseg)):
            sp, _ = segment(R, R.choice(kinds) if kinds else None, start=cur)
            specs.append(sp)
            cur = seg_end(sp)
        if R.random() < closed_prob and cur is not None:
            zero = R.random() < 0.3
            if zero and specs[-1]["k"] in ("L", "Q", "C"):
                specs[-1]["e"] = list(home)
                cur = list(home)
            specs.append({"k": "Z", "s": list(cur), "e": list(home)})
            cur = list(home)
    return specs


# ---- builders (the only part that touches the library) ------------------------------------------------------

def build_segment(S, spec):
    k = spec["k"]
    P = lambda p: S.Point(p[0], p[1])
    if k == "M":
        return S.Move(P(spec["p"]))
    if k == "L":
        return S.Line(P(spec["s"]), P(spec["e"]))
    if k == "Z":
        return S.Close(P(spec["s"]), P(spec["e"]))
    if k == "Q":
        return S.QuadraticBezier(P(spec["s"]), P(spec["c"]), P(spec["e"]))
    if k == "C":
        return S.CubicBezier(P(spec["s"]), P(spec["c1"]), P(spec["c2"]), P(spec["e"]))
    if "arc" in spec:
        a = spec["arc"]
        return S.Arc((a[0], a[1]), a[2], a[3], a[4], a[5], a[6], (a[7], a[8]))
    cx, cy, rx, ry, phi, th1, sweep = spec["carc"]
    c, s = math.cos(phi), math.sin(phi)
    start = carc_point(spec["carc"], th1)
    end = carc_point(spec["carc"], th1 + sweep)
    return S.Arc(S.Point(*start), S.Point(*end), S.Point(cx, cy), S.Point(cx + c * rx, cy + s * rx), S.Point(cx - s * ry, cy + c * ry), sweep)


def build_path(S, specs):
    """segments linked exactly: every start is a copy of the predecessor's end (the generator's own arithmetic
    for arc start points may be an ulp off, which is not the library's business)"""
    segs = [build_segment(S, sp) for sp in specs]
    for a, b in zip(segs, segs[1:]):
        if a.end is not None:
            b.start = S.Point(a.end.x, a.end.y)
    return S.Path(*segs)


def magnitude(specs):
    m = 1e-3
    for sp in specs:
        for key in ("p", "s", "e", "c", "c1", "c2"):
            if key in sp:
                m = max(m, abs(sp[key][0]), abs(sp[key][1]))
        if "arc" in sp:
            a = sp["arc"]
            m = max(m, abs(a[0]), abs(a[1]), abs(a[7]), abs(a[8]))
        if "carc" in sp:
            ca = sp["carc"]
            m = max(m, abs(ca[0]) + max(ca[2], ca[3]), abs(ca[1]) + max(ca[2], ca[3]))
    return m


def extent(specs):
    """rough size of the drawn geometry (for the size term of tolerances)"""
    xs, ys = [], []
    for sp in specs:
        for key in ("p", "s", "e", "c", "c1", "c2"):
            if key in sp:
                xs.append(sp[key][0])
                ys.append(sp[key][1])
        if "arc" in sp:
            a = sp["arc"]
            ch = math.hypot(a[7] - a[0], a[8] - a[1])
            r = max(abs(a[2]), abs(a[3]), ch / 2)
            xs += [a[0] - 2 * r, a[0] + 2 * r]
            ys += [a[1] - 2 * r, a[1] + 2 * r]
        if "carc" in sp:
            ca = sp["carc"]
            r = max(ca[2], ca[3])
            xs += [ca[0] - r, ca[0] + r]
            ys += [ca[1] - r, ca[1] + r]
    if not xs:
        return 1.0
    return max(max(xs) - min(xs), max(ys) - min(ys), 1e-9)


# ---- shapes ---------------------------------------------------------------------------------------------------

SHAPE_KINDS = ["rect", "rrect", "circle", "ellipse", "line", "polyline", "polygon"]


def shape_spec(R, kind=None):
    kind = kind or R.choice(SHAPE_KINDS)
    pos = lambda: R.choice([0.0, float(R.randint(-50, 50)), round(R.uniform(-200, 200), R.randint(0, 3))])
    sz = lambda: R.choice([1.0, float(R.randint(1, 60)), round(R.uniform(0.5, 150), R.randint(0, 3))])
    if kind == "rect":
        return {"kind": "rect", "x": pos(), "y": pos(), "width": sz(), "height": sz()}
    if kind == "rrect":
        w, h = sz() + 4, sz() + 4
        sp = {"kind": "rect", "x": pos(), "y": pos(), "width": w, "height": h}
        which = R.random()
        if which < 0.4:
            sp["rx"], sp["ry"] = round(R.uniform(0.2, w / 2), 3), round(R.uniform(0.2, h / 2), 3)
        elif which < 0.6:
            sp["rx"] = round(R.uniform(0.2, w / 2), 3)
        elif which < 0.8:
            sp["ry"] = round(R.uniform(0.2, h / 2), 3)
        else:
            sp["rx"], sp["ry"] = round(R.uniform(w / 2, w), 3), round(R.uniform(0.2, h), 3)
        return sp
    if kind == "circle":
        return {"kind": "circle", "cx": pos(), "cy": pos(), "r": sz()}
    if kind == "ellipse":
        return {"kind": "ellipse", "cx": pos(), "cy": pos(), "rx": sz(), "ry": sz()}
    if kind == "line":
        return {"kind": "line", "x1": pos(), "y1": pos(), "x2": pos(), "y2": pos()}
    return {"kind": kind, "points": [[pos(), pos()] for _ in range(R.randint(2, 7))]}


def build_shape(S, spec, transform=None):
    kw = {k: v for k, v in spec.items() if k not in ("kind", "points")}
    if transform is not None:
        kw["transform"] = S.Matrix(*transform)
    k = spec["kind"]
    if k == "rect":
        return S.Rect(**kw)
    if k == "circle":
        return S.Circle(**kw)
    if k == "ellipse":
        return S.Ellipse(**kw)
    if k == "line":
        return S.SimpleLine(**kw)
    pts = [tuple(p) for p in spec["points"]]
    if k == "polyline":
        return S.Polyline(*pts, **kw)
    return S.Polygon(*pts, **kw)
