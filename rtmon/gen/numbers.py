"""Number pools and number spellings shared by the generators.

All functions take the case's own random.Random; nothing here touches the library.
"""
import math

WS = [" ", "\t", "\n", "\r", "\x0c"]


def coord(R, big=True):
    """a coordinate: exact 0, small integers, decimals, magnitudes 1e-3..1e5"""
    k = R.random()
    if k < 0.12:
        return 0.0
    if k < 0.45:
        return float(R.randint(-20, 20))
    if k < 0.75:
        return round(R.uniform(-100, 100), R.randint(0, 6))
    if k < 0.82:
        return R.uniform(-100, 100)  # 17 significant digits
    if not big:
        return round(R.uniform(-10, 10), 3)
    return R.choice([-1, 1]) * R.uniform(1, 10) * 10 ** R.randint(-3, 4)


def positive(R, lo=-3, hi=3):
    return R.uniform(1, 10) * 10 ** R.randint(lo, hi - 1)


def spell(R, x, allow_plus=True):
    """one of the spellings of the float x that evaluate to exactly x"""
    x = float(x)
    forms = [repr(x)]
    if x == int(x) and abs(x) < 1e15:
        forms += ["%d" % x, "%d.0" % x, "%de0" % x, "%dE+0" % x]
    s = repr(x)
    if s.startswith("0."):
        forms.append(s[1:])
    if s.startswith("-0."):
        forms.append("-" + s[2:])
    forms.append("%.17e" % x)
    forms.append("%.17E" % x)
    if x != 0 and abs(x) < 1e15:
        # move the decimal point with an exponent:  12.5 -> 1.25e1 / 125e-1
        t = repr(x / 10.0)
        if "e" not in t and float(t + "e1") == x:
            forms.append(t + "e1")
            forms.append(t + "E+01")
    f = R.choice(forms)
    if allow_plus and not f.startswith("-") and R.random() < 0.15:
        f = "+" + f
    if "inf" in f or "nan" in f or float(f) != x:
        f = repr(x)
    return f


def sep(R, required):
    k = R.random()
    if k < 0.3:
        return ","
    if k < 0.5:
        return R.choice(WS) + "," + R.choice(WS)
    if k < 0.8 or required:
        return R.choice(WS) * R.randint(1, 2)
    return ""


def can_omit_separator(prev_tok, tok):
    """may `tok` (a number spelling) directly follow the number `prev_tok`?"""
    if tok[0] in "+-":
        return True
    if tok[0] == "." and ("." in prev_tok or "e" in prev_tok.lower()):
        return True
    return False
