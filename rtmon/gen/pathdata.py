"""Grammar-conforming path-data programs and their spellings (SVG 2 path grammar).

Programs use the abstract format of rtmon/ref/pathref.py.
"""
from .numbers import WS, can_omit_separator, coord, sep, spell

LETTERS = "MmZzLlHhVvCcSsQqTtAa"
NNUM = {"m": 2, "l": 2, "h": 1, "v": 1, "c": 6, "s": 4, "q": 4, "t": 2, "a": 7, "z": 0}


def radius(R):
    k = R.random()
    if k < 0.4:
        return float(R.randint(1, 30))
    if k < 0.8:
        return round(R.uniform(0.5, 80), R.randint(0, 4))
    return R.uniform(1, 10) * 10 ** R.randint(-2, 3)


def group(R, low, num=coord):
    if low == "a":
        rot = R.choice([0.0, 90.0, 180.0, 270.0, 30.0, -30.0, 45.0, 400.0, -725.0, round(R.uniform(-360, 360), 3)])
        return [radius(R), radius(R), rot, R.randint(0, 1), R.randint(0, 1), num(R), num(R)]
    return [num(R) for _ in range(NNUM[low])]


def command(R, L, zprob=0.12, num=coord, maxrep=3):
    low = L.lower()
    if low == "z":
        return {"c": L, "g": [], "z": False}
    reps = R.randint(1, maxrep) if R.random() < 0.5 else 1
    groups = [group(R, low, num) for _ in range(reps)]
    z = low not in "mhv" and R.random() < zprob
    if z:
        if low in "lt":
            groups = groups[:1]
        groups[-1] = groups[-1][:-2]
    return {"c": L, "g": groups, "z": z}


def program(R, ncmd=None, letters=LETTERS, num=coord, zprob=0.12, maxcmd=12):
    n = ncmd if ncmd is not None else R.randint(1, maxcmd)
    prog = [command(R, R.choice("Mm"), num=num)]
    for _ in range(n - 1):
        prog.append(command(R, R.choice(letters), zprob=zprob, num=num))
    return prog


def pair_program(R, index):
    """M + X + Y for the index-th ordered pair of command letters (20 x 20)"""
    a = LETTERS[(index // 20) % 20]
    b = LETTERS[index % 20]
    return [command(R, R.choice("Mm")), command(R, a), command(R, b)]


def tokens(com, R=None, plain=False):
    """[(kind, text)] for the arguments of one command"""
    toks = []
    low = com["c"].lower()
    for g in com["g"]:
        for j, x in enumerate(g):
            if low == "a" and j in (3, 4):
                toks.append(("flag", str(int(x))))
            elif plain or R is None:
                toks.append(("num", repr(float(x))))
            else:
                toks.append(("num", spell(R, x)))
    if com.get("z"):
        toks.append(("z", "z" if (plain or R is None or R.random() < 0.5) else "Z"))
    return toks


def spell_command(R, com, plain=False):
    L = com["c"]
    if plain:
        toks = tokens(com, None, True)
        return L + " " + " ".join(t for _, t in toks) if toks else L
    s = L + R.choice(["", "", " ", "\t"])
    prevkind, prev = None, ""
    for kind, t in tokens(com, R):
        if prevkind is not None:
            if prevkind == "flag":
                need = False
            elif kind == "z":
                need = False
            elif kind == "flag":
                need = True  # number -> flag needs a separator
            else:
                need = not can_omit_separator(prev, t)
            if need:
                s += sep(R, True)
            elif R.random() < 0.5:
                s += sep(R, False)
        s += t
        prevkind, prev = kind, t
    return s


def spell_program(R, prog, plain=False):
    if plain:
        return " ".join(spell_command(R, c, True) for c in prog)
    out = [R.choice(["", "", " ", "\n"])]
    for com in prog:
        out.append(spell_command(R, com))
        out.append(R.choice(["", "", " ", "\n", "\r\n", "\x0c"]))
    return "".join(out)


def split_points(prog):
    """indices at which a program can be split at a command boundary"""
    return list(range(1, len(prog)))
