"""Per-worker observation context: what the monitors saw, not just that cases ran."""
import hashlib
import json
import math
import traceback
from collections import Counter

from .num import Margins

MAX_WITNESS_PER_KEY = 3


def jsonable(x, depth=0):
    if depth > 80:
        return repr(x)[:200]
    if x is None or isinstance(x, (bool, int, str)):
        return x
    if isinstance(x, float):
        if x != x or abs(x) == math.inf:
            return repr(x)
        return x
    if isinstance(x, (list, tuple)):
        return [jsonable(v, depth + 1) for v in x]
    if isinstance(x, dict):
        return {str(k): jsonable(v, depth + 1) for k, v in x.items()}
    return repr(x)[:400]


def digest(case):
    s = json.dumps(jsonable(case), sort_keys=True, separators=(",", ":"))
    return int.from_bytes(hashlib.blake2b(s.encode("utf-8", "replace"), digest_size=8).digest(), "big")


_ACTIVE = [None]


def active():
    """the context of the case that is running now (hooks report to it)"""
    return _ACTIVE[0]


class Ctx:
    def __init__(self, prop_id, tier, seed):
        self.prop_id = prop_id
        self.tier = tier
        self.seed = seed
        self.monitors = Counter()  # monitor id -> evaluations
        self.events = Counter()  # monitor id -> violations it raised
        self.strata = Counter()
        self.notes = Counter()  # free-form observations (not verdict relevant)
        self.inconclusive = Counter()
        self.margins = Margins()
        self.violations = {}  # key -> {"count": n, "witnesses": [...]}
        self.samples = {}  # stratum -> case
        self.digests = set()
        self.evaluations = 0
        self.case = None
        self.case_index = None
        self.case_violations = []  # keys raised by the current case
        self.max_values = {}

    # -- called by the driver ------------------------------------------------
    def begin_case(self, index, case):
        self.case = case
        self.case_index = index
        self.case_violations = []
        self.evaluations += 1
        _ACTIVE[0] = self

    def end_case(self, nontrivial=True):
        case = self.case
        st = case.get("stratum", "generic") if isinstance(case, dict) else "generic"
        self.strata[st] += 1
        if nontrivial:
            self.digests.add(digest(case))
        if st not in self.samples and len(self.samples) < 40:
            self.samples[st] = jsonable(case)
        self.case = None

    # -- called by monitors --------------------------------------------------
    def mon(self, monitor, n=1):
        self.monitors[monitor] += n

    def see(self, kind, ratio):
        return self.margins.see(kind, ratio)

    def note(self, what, n=1):
        self.notes[what] += n

    def maxval(self, name, v):
        if v > self.max_values.get(name, -math.inf):
            self.max_values[name] = v

    def undecided(self, reason, n=1):
        self.inconclusive[reason] += n

    def violation(self, key, detail, monitor=None, **data):
        if monitor is not None:
            self.events[monitor] += 1
        self.case_violations.append(key)
        rec = self.violations.setdefault(key, {"count": 0, "witnesses": []})
        rec["count"] += 1
        if len(rec["witnesses"]) < MAX_WITNESS_PER_KEY:
            rec["witnesses"].append(
                {
                    "index": self.case_index,
                    "case": jsonable(self.case),
                    "detail": str(detail)[:2000],
                    "data": jsonable(data),
                }
            )

    def exception(self, exc, where=""):
        """an exception the property does not allow at this point"""
        tb = traceback.extract_tb(exc.__traceback__)
        inner = "?"
        for fr in reversed(tb):
            if fr.filename.endswith("svgelements.py"):
                inner = fr.name
                break
        key = "unexpected-exception/%s/%s%s" % (type(exc).__name__, inner, ("@" + where) if where else "")
        self.violation(key, "%s: %s" % (type(exc).__name__, exc), tb="".join(traceback.format_tb(exc.__traceback__)[-4:]))
        return key

    # -- serialisation ---------------------------------------------------------
    def dump(self):
        return {
            "evaluations": self.evaluations,
            "monitors": dict(self.monitors),
            "events": dict(self.events),
            "strata": dict(self.strata),
            "notes": dict(self.notes),
            "inconclusive": dict(self.inconclusive),
            "margins": dict(self.margins.m),
            "max_values": dict(self.max_values),
            "violations": self.violations,
            "samples": self.samples,
        }
