"""C06 - basic shapes are interchangeable with their SVG 2 equivalent paths."""
import math

from ..gen import transforms as GT
from ..num import b_affine, b_fmt12, m_apply, m_cond, m_det, m_norm
from ..ref import bboxref as B
from ..ref import shaperef as H
from . import c07, c08

ID = "C06"
RULE = (
    "every basic shape kind with parameters from the full decision table (rect radii given / omitted / zero / over-large / "
    "percent / negative / one-sided, zero and negative sizes, point lists of length 0, 1, 2, n with repeated points), built "
    "three ways (keyword values, positional arguments, attribute dictionary with unit strings), crossed with ten matrix classes; "
    "the real shape's decomposition is compared with the SVG 2 chapter 10 equivalent path (kinds, order, start point, direction; "
    "straight edges and arcs pointwise at equal parameters), and shape, Path(shape), Path(shape.d()) are compared with each other "
    "(library ==, geometry, bbox, length), transformed and untransformed. Non-trivial = the shape is rendered."
)
BUDGET = {"quick": 9000, "thorough": 400000}
TIME_CAP = {"quick": 240, "thorough": 1500}
ANCHORS = ["Rect._validate_rect", "Rect.segments", "_RoundShape.segments", "SimpleLine.segments", "_Polyshape.segments", "_Polyshape._init_points",
           "Shape.d", "Shape.__eq__", "Path.__init__", "Rect.reify", "_RoundShape.reify", "SimpleLine.reify", "_Polyshape.reify"]
REQUIRED_MONITORS = ["equivalent-path", "transformed-decomposition", "shape-eq-path", "path-from-d", "bbox-agreement", "length-agreement", "length-after-history", "degenerate"]

T5 = [0.0, 0.25, 0.5, 0.75, 1.0]
KIND = {"M": "Move", "L": "Line", "Z": "Close", "A": "Arc"}
MCLASSES = ["identity", "identity", "translate", "rotate", "uniform", "reflect", "aniso", "rot-aniso", "aniso-rot", "shear", "general", "general-neg"]


def strata_minimum(tier):
    f = 1 if tier == "quick" else 20
    return {"rect": 800 * f, "rrect": 2000 * f, "circle": 700 * f, "ellipse": 700 * f, "line": 300 * f, "polyline": 400 * f, "polygon": 400 * f, "degenerate": 500 * f}


def nontrivial(case):
    return case["stratum"] != "degenerate"


def _pos(R):
    return R.choice([0.0, float(R.randint(-50, 50)), round(R.uniform(-300, 300), R.randint(0, 3)), R.uniform(-1, 1) * 10 ** R.randint(-3, 4)])


def _size(R):
    return R.choice([1.0, float(R.randint(1, 80)), round(R.uniform(0.5, 200), R.randint(0, 3)), 10 ** R.uniform(-3, 4)])


def gen_case(R, index, tier):
    kind = ["rect", "rrect", "rrect", "circle", "ellipse", "line", "polyline", "polygon", "degenerate"][index % 9]
    route = R.choice(["kw", "pos", "dict"])
    mclass = R.choice(MCLASSES)
    M = list(GT.affine(R, mclass)[1])
    g = {}
    st = kind
    if kind in ("rect", "rrect", "degenerate") and (kind != "degenerate" or R.random() < 0.4):
        w, h = _size(R), _size(R)
        g = {"kind": "rect", "x": _pos(R), "y": _pos(R), "width": w, "height": h}
        if kind == "rrect":
            def radius(side):
                c = R.random()
                if c < 0.14:
                    return None
                if c < 0.24:
                    return 0.0
                if c < 0.50:
                    return round(R.uniform(0.01, 0.5) * side, 4)
                if c < 0.64:
                    return round(R.uniform(0.5, 3) * side, 4)  # over-large
                return ["%", R.choice([10.0, 25.0, 50.0, 75.0, 120.0, round(R.uniform(1, 150), 2)])]
            g["rx"], g["ry"] = radius(w), radius(h)
        if kind == "degenerate":
            which = R.choice(["w0", "h0", "both0"])
            if which in ("w0", "both0"):
                g["width"] = 0.0
            if which in ("h0", "both0"):
                g["height"] = 0.0
            if which == "wneg":
                g["width"] = -abs(g["width"])
    elif kind == "circle" or (kind == "degenerate" and R.random() < 0.3):
        g = {"kind": "circle", "cx": _pos(R), "cy": _pos(R), "r": _size(R) if kind == "circle" else 0.0}
    elif kind == "ellipse" or (kind == "degenerate" and R.random() < 0.5):
        g = {"kind": "ellipse", "cx": _pos(R), "cy": _pos(R), "rx": _size(R), "ry": _size(R)}
        if kind == "degenerate":
            g[R.choice(["rx", "ry"])] = 0.0
    elif kind == "line":
        g = {"kind": "line", "x1": _pos(R), "y1": _pos(R), "x2": _pos(R), "y2": _pos(R)}
        if R.random() < 0.1:
            g["x2"], g["y2"] = g["x1"], g["y1"]
    else:
        k2 = kind if kind in ("polyline", "polygon") else R.choice(["polyline", "polygon"])
        n = 0 if kind == "degenerate" else R.choice([1, 2, 2, 3, 4, 5, 8])
        pts = [[_pos(R), _pos(R)] for _ in range(n)]
        if n >= 3 and R.random() < 0.3:
            pts[R.randrange(1, n)] = list(pts[0])  # repeated point
        if n >= 2 and R.random() < 0.15:
            pts[1] = list(pts[0])
        g = {"kind": k2, "points": pts}
    return {"stratum": st, "geom": g, "route": route, "mclass": mclass, "M": M, "unit": R.choice(["", "", "px", "pt", "pc"])}


def shrink_candidates(case):
    if case["mclass"] != "identity":
        c = dict(case)
        c["M"] = [1.0, 0.0, 0.0, 1.0, 0.0, 0.0]
        c["mclass"] = "identity"
        yield c
    if case["route"] != "kw":
        c = dict(case)
        c["route"] = "kw"
        yield c


UNIT = {"": 1.0, "px": 1.0, "pt": 4.0 / 3.0, "pc": 16.0}


def _txt(v, unit):
    """attribute text for a number in user units, written in `unit`"""
    if v is None:
        return None
    if isinstance(v, list):
        return "%r%%" % v[1]
    return "%r%s" % (v / UNIT[unit], unit)


def build(S, case):
    g, route, unit = case["geom"], case["route"], case["unit"]
    k = g["kind"]
    num = lambda v: None if v is None else (("%r%%" % v[1]) if isinstance(v, list) else v)
    if k == "rect":
        keys = ["x", "y", "width", "height", "rx", "ry"]
        if route == "dict":
            return S.Rect({n: _txt(g[n], unit) for n in keys if g.get(n) is not None})
        if route == "pos":
            args = [num(g[n]) for n in keys[:4]]
            if g.get("rx") is not None or g.get("ry") is not None:
                args += [num(g.get("rx")), num(g.get("ry"))]
            return S.Rect(*args)
        return S.Rect(**{n: num(g[n]) for n in keys if g.get(n) is not None})
    if k == "circle":
        if route == "dict":
            return S.Circle({"cx": _txt(g["cx"], unit), "cy": _txt(g["cy"], unit), "r": _txt(g["r"], unit)})
        if route == "pos":
            return S.Circle(g["cx"], g["cy"], g["r"])
        return S.Circle(cx=g["cx"], cy=g["cy"], r=g["r"])
    if k == "ellipse":
        if route == "dict":
            return S.Ellipse({n: _txt(g[n], unit) for n in ("cx", "cy", "rx", "ry")})
        if route == "pos":
            return S.Ellipse(g["cx"], g["cy"], g["rx"], g["ry"])
        return S.Ellipse(cx=g["cx"], cy=g["cy"], rx=g["rx"], ry=g["ry"])
    if k == "line":
        if route == "dict":
            return S.SimpleLine({n: _txt(g[n], unit) for n in ("x1", "y1", "x2", "y2")})
        if route == "pos":
            return S.SimpleLine(g["x1"], g["y1"], g["x2"], g["y2"])
        return S.SimpleLine(x1=g["x1"], y1=g["y1"], x2=g["x2"], y2=g["y2"])
    cls = S.Polyline if k == "polyline" else S.Polygon
    pts = g["points"]
    if route == "dict":
        return cls({"points": " ".join("%r,%r" % (p[0], p[1]) for p in pts)})
    if route == "pos":
        return cls(*[tuple(p) for p in pts])
    return cls(points=[tuple(p) for p in pts])


def reference(case):
    g = dict(case["geom"])
    k = g["kind"]
    if k == "rect":
        if g["width"] > 0 and g["height"] > 0:
            g["rx"], g["ry"] = H.resolve_rect_radii(g["width"], g["height"], g.get("rx"), g.get("ry"))
        else:
            g["rx"] = g["ry"] = 0.0
    return H.equivalent(k, g)


def _sample(cv, kind):
    if kind == "M":
        return [B.point(cv, 0.0)]
    return [B.point(cv, t) for t in T5]


def _lib_sample(S, seg):
    if isinstance(seg, S.Move):
        return [(seg.end.x, seg.end.y)]
    return [(p.x, p.y) for p in (seg.point(t) for t in T5)]


def compare_decomposition(S, ctx, segs, ref, m, what, monitor, feature, bound_extra=0.0):
    kinds = "".join({"Move": "M", "Line": "L", "Close": "Z", "Arc": "A", "QuadraticBezier": "Q", "CubicBezier": "C"}[type(s).__name__] for s in segs)
    want = "".join(k for k, _ in ref)
    if kinds != want:
        ctx.violation("%s/kinds/%s" % (monitor, feature), "%s: segments %s, the equivalent path is %s" % (what, kinds, want), monitor=monitor)
        return False
    S_ = 1e-3
    pts_all = []
    for (k, cv), seg in zip(ref, segs):
        exp = _sample(cv, k)
        if m is not None:
            exp = [m_apply(m, p) for p in exp]
        pts_all.append((k, exp, _lib_sample(S, seg)))
        for p in exp:
            S_ = max(S_, abs(p[0]), abs(p[1]))
    cond = m_cond(m) if m is not None else 1.0
    for i, (k, exp, got) in enumerate(pts_all):
        size = max([math.hypot(p[0] - exp[0][0], p[1] - exp[0][1]) for p in exp] + [0.0])
        ecc = 1.0
        if k == "A":
            cv = ref[i][1]
            nu, nv = math.hypot(*cv[2]), math.hypot(*cv[3])
            ecc = max(nu, nv) / max(min(nu, nv), 1e-300)
            size = max(size, nu, nv)
        # the parameter of a point on a very flat ellipse is ill-conditioned (atan2 of a ratio of the radii)
        # an Arc stores its centre and axis tips as absolute points: the direction of a tiny minor axis carries ulp(S) / r_minor of noise,
        # which the parameter angle magnifies by the radii ratio once more: displacement ~ eps * S * ecc^2 (measured: 1.3e-3 at S = 4e3, ecc = 1e5)
        bound = 4 * b_affine(S_, cond) + ((4e-9 * size * max(1.0, cond / 10) * max(1.0, ecc / 100.0) + 8 * 2.3e-16 * S_ * ecc * ecc) if k == "A" else 0.0) + bound_extra
        dev = max(math.hypot(a[0] - b[0], a[1] - b[1]) for a, b in zip(got, exp))
        if ctx.see("%s-%s" % (monitor, k), dev / bound) > 1:
            # direction only? the same points in reverse order
            rev = max(math.hypot(a[0] - b[0], a[1] - b[1]) for a, b in zip(got, exp[::-1]))
            what2 = "start-point-or-direction" if (k == "M" or rev <= bound) else "geometry"
            ctx.violation("%s/%s/%s/%s" % (monitor, what2, {"M": "start", "L": "edge", "Z": "close", "A": "arc"}[k], feature),
                          "%s: segment %d (%s) passes %s, the equivalent path passes %s (deviation %.3g, bound %.3g)" % (what, i, KIND[k], got, exp, dev, bound), monitor=monitor)
            return False
    return True


def run_case(S, case, ctx):
    g = case["geom"]
    kind = g["kind"]
    M = tuple(case["M"])
    ident = case["mclass"] == "identity"
    what = "%s(%s) via %s" % (kind, {k: v for k, v in g.items() if k != "kind"}, case["route"] + ("/" + case["unit"] if case["route"] == "dict" and case["unit"] else ""))
    try:
        shape = build(S, case)
    except Exception as e:
        ctx.violation("construction-raises/%s/%s/%s" % (type(e).__name__, kind, case["route"]), "%s: %r" % (what, e), monitor="equivalent-path")
        return
    ref = reference(case)
    feat = kind + ("-rounded" if kind == "rect" and any(k == "A" for k, _ in ref) else "")
    if not ident:
        shape *= S.Matrix(*M)
        what += " * Matrix%s" % (M,)
    if not ref:
        ctx.mon("degenerate")
        try:
            segs = shape.segments()
            d = shape.d()
            bb = shape.bbox()
            ps = list(S.Path(shape))
        except Exception as e:
            ctx.violation("degenerate-raises/%s/%s" % (type(e).__name__, kind), "%s: %r" % (what, e), monitor="degenerate")
            return
        if len(segs) != 0 or d != "" or bb is not None or len(ps) != 0:
            ctx.violation("degenerate-shape-produces-geometry/%s" % kind, "%s: segments=%r d=%r bbox=%r Path(shape)=%r" % (what, segs, d, bb, ps), monitor="degenerate")
        return
    # (1) untransformed decomposition = the equivalent path
    ctx.mon("equivalent-path")
    try:
        base = list(shape.segments(transformed=False))
    except Exception as e:
        ctx.violation("segments-raises/%s/%s" % (type(e).__name__, kind), "%s: %r" % (what, e), monitor="equivalent-path")
        return
    unit_extra = 0.0
    if case["route"] == "dict" and case["unit"]:
        unit_extra = 1e-12 * max(abs(v) for v in _numbers(g)) if _numbers(g) else 0.0
    if not compare_decomposition(S, ctx, base, ref, None, what + " .segments(transformed=False)", "equivalent-path", feat, unit_extra * 16):
        return
    # (2) transformed decomposition = M(equivalent path)
    ctx.mon("transformed-decomposition")
    m = None if ident else M
    forms = [("segments()", lambda: list(shape.segments(transformed=True))), ("Path(shape) reified", lambda: list(abs(S.Path(shape)))),
             ("abs(shape).segments()", lambda: list(abs(shape).segments(transformed=True)))]
    skew = False
    if m is not None:
        a, b, c, d = m[:4]
        n1, n2 = math.hypot(a, b), math.hypot(c, d)
        skew = abs(a * c + b * d) > 1e-9 * n1 * n2
    for name, f in forms:
        try:
            segs = f()
        except Exception as e:
            ctx.violation("transformed-raises/%s/%s" % (type(e).__name__, kind), "%s %s: %r" % (what, name, e), monitor="transformed-decomposition")
            return
        if (name in ("segments()", "abs(shape).segments()") and kind in ("circle", "ellipse") and m is not None and m_det(m) < 0 and m[0] * m[3] >= -1e-12 * abs(m[1] * m[2]) and not skew):
            # recorded known finding of C02 (direction pinned by the repository's test_issue_mk_1362): judged there
            ctx.note("round-shape under a reflection with zero diagonal: direction judged by C02's known finding")
            continue
        if not compare_decomposition(S, ctx, segs, ref, m, "%s %s" % (what, name), "transformed-decomposition", feat + ("/axes-skewed" if skew and "A" in [k for k, _ in ref] else ""), unit_extra * 16 * (m_norm(m) if m else 1)):
            return
    if kind in ("circle", "ellipse") and m is not None and m_det(m) < 0 and m[0] * m[3] >= -1e-12 * abs(m[1] * m[2]) and not skew:
        return  # the shape's own transformed decomposition runs the other way round here (C02's recorded finding)
    # (3) the three forms are interchangeable
    ctx.mon("shape-eq-path")
    try:
        P = S.Path(shape)
        if not (shape == P) or not (P == shape) or (shape != P):
            ctx.violation("shape-not-equal-to-Path(shape)/%s" % feat, "%s: shape == Path(shape) is False" % what, monitor="shape-eq-path")
            return
    except Exception as e:
        ctx.violation("shape-eq-raises/%s/%s" % (type(e).__name__, kind), "%s: %r" % (what, e), monitor="shape-eq-path")
        return
    # ... and == tells a different shape apart
    ctx.mon("shape-ne-other")
    g2 = dict(g)
    if kind == "rect":
        g2["height"] = g["height"] * 1.5 + 1.0
    elif kind == "circle":
        g2["r"] = g["r"] * 2 + 1.0
    elif kind == "ellipse":
        g2["ry"] = g["ry"] * 2 + 1.0
    elif kind == "line":
        g2["x2"] = g["x2"] + 3.0 + abs(g["x2"])
    else:
        g2["points"] = [list(q) for q in g["points"]]
        g2["points"][-1] = [g2["points"][-1][0] + 5.0 + abs(g2["points"][-1][0]), g2["points"][-1][1] - 7.0]
    c2 = dict(case)
    c2["geom"] = g2
    other = build(S, c2)
    if not ident:
        other *= S.Matrix(*M)
    try:
        if (shape == S.Path(other)) or (S.Path(shape) == S.Path(other)) or not (shape != S.Path(other)):
            ctx.violation("different-shapes-compare-equal/%s" % feat, "%s == Path(%s) is True" % (what, g2), monitor="shape-ne-other")
            return
    except Exception as e:
        ctx.violation("shape-eq-raises/%s/%s" % (type(e).__name__, kind), "%s vs %s: %r" % (what, g2, e), monitor="shape-ne-other")
        return
    ctx.mon("path-from-d")
    try:
        text = shape.d()
        Pd = S.Path(text)
    except Exception as e:
        ctx.violation("d-raises/%s/%s" % (type(e).__name__, kind), "%s .d(): %r" % (what, e), monitor="path-from-d")
        return
    tsegs = list(abs(P))
    S_ = max([1e-3] + [abs(v) for s_ in tsegs for p in s_ if p is not None for v in (p.x, p.y)])
    ok_d = True
    bad = c07.compare(S, ctx, tsegs, Pd, what, feat, "path-from-d", 0)
    if bad is not None:
        kd, detail, arc_only = bad
        if kd.startswith("geometry/Arc") and arc_only:
            t2 = c07.repaired_arc_text(S, text, tsegs)
            if t2 is not None and c07.compare(S, ctx, tsegs, S.Path(t2), what, feat, "path-from-d", 0) is None:
                ctx.violation("path-from-d/arc-parameters-written-with-6-digits", "%s: Path(shape.d()): %s; with full-precision radii the same text round-trips: d() = %s" % (what, detail, text), monitor="path-from-d")
                ok_d = False
        if ok_d:
            ctx.violation("path-from-d/%s/%s" % (kd, feat), "%s: Path(shape.d()): %s: d() = %s" % (what, detail, text), monitor="path-from-d")
            return
    # (4) bbox and length agree between the forms
    ctx.mon("bbox-agreement")
    for tr in (True, False):
        try:
            b1, b2 = shape.bbox(transformed=tr), P.bbox(transformed=tr)
        except Exception as e:
            ctx.violation("bbox-raises/%s/%s" % (type(e).__name__, kind), "%s bbox(transformed=%s): %r" % (what, tr, e), monitor="bbox-agreement")
            return
        if (b1 is None) != (b2 is None):
            ctx.violation("bbox-disagree/none/%s" % feat, "%s: shape.bbox(%s)=%r Path(shape).bbox=%r" % (what, tr, b1, b2), monitor="bbox-agreement")
            return
        if b1 is not None:
            size = max(b1[2] - b1[0], b1[3] - b1[1], 1e-300)
            tol = 1e-9 * size + 1e-11 * max(S_, 1.0)
            if max(abs(x - y) for x, y in zip(b1, b2)) > tol:
                ctx.violation("bbox-disagree/%s%s" % (feat, "/axes-skewed" if skew else ""), "%s: shape.bbox(transformed=%s)=%r, Path(shape).bbox=%r" % (what, tr, b1, b2), monitor="bbox-agreement")
                return
    if ok_d and not any(isinstance(q, S.Arc) for q in tsegs):
        # (with arcs the box agreement follows from the pointwise agreement above, within the same conditioning)
        bd = Pd.bbox()
        b1 = shape.bbox()
        if bd is not None and b1 is not None:
            size = max(b1[2] - b1[0], b1[3] - b1[1], 1e-300)
            if max(abs(x - y) for x, y in zip(b1, bd)) > (2e-5 if any(isinstance(q, S.Arc) for q in tsegs) else 1e-10) * size + 1e-10 * S_:
                ctx.violation("bbox-disagree/path-from-d/%s" % feat, "%s: shape.bbox()=%r, Path(shape.d()).bbox()=%r" % (what, b1, bd), monitor="bbox-agreement")
                return
    ctx.mon("length-agreement")
    try:
        l1, l2 = shape.length(error=1e-5), P.length(error=1e-5)
    except Exception as e:
        ctx.violation("length-raises/%s/%s" % (type(e).__name__, kind), "%s: %r" % (what, e), monitor="length-agreement")
        return
    if abs(l1 - l2) > 1e-9 * max(l1, l2, 1e-300) + 1e-12 * S_:
        ctx.violation("length-disagree/%s" % feat, "%s: shape.length()=%r, Path(shape).length()=%r" % (what, l1, l2), monitor="length-agreement")
        return
    # the same agreement on an object with a history: measured, then transformed in place (not an isometry), reified, measured again
    ctx.mon("length-after-history")
    try:
        import copy as _copy
        sh2 = _copy.copy(shape)
        sh2.length(error=1e-5)
        sh2 *= S.Matrix(2.0, 0.0, 0.0, 0.5, 3.0, -1.0)
        sh2.reify()
        l3, l4 = sh2.length(error=1e-5), S.Path(sh2).length(error=1e-5)
    except Exception as e:
        ctx.violation("length-raises/%s/%s/after-history" % (type(e).__name__, kind), "%s measured, scaled in place, reified, measured: %r" % (what, e), monitor="length-after-history")
        return
    if abs(l3 - l4) > 1e-9 * max(l3, l4, 1e-300) + 1e-12 * 2 * S_:
        ctx.violation("length-disagree/after-history/%s" % feat, "%s; length(); *= matrix(2,0,0,.5,3,-1); reify(): shape.length()=%r, Path(shape).length()=%r" % (what, l3, l4), monitor="length-after-history")


def _numbers(g):
    out = []
    for k, v in g.items():
        if isinstance(v, (int, float)):
            out.append(float(v))
    return out


def _six_digit_explains(S, src, got, dev):
    """would rounding the source arc's radii / rotation to 6 significant digits move it by about this much?"""
    six = lambda v: float("%.6G" % v)
    drx, dry = abs(six(src.rx) - src.rx), abs(six(src.ry) - src.ry)
    rot = float(src.get_rotation().as_degrees)
    drot = abs(six(rot) - rot)
    size = max(src.rx, src.ry)
    est = drx + dry + math.radians(drot) * size
    if est == 0:
        return False
    chord = math.hypot(src.end.x - src.start.x, src.end.y - src.start.y)
    amplification = 1.0 + size / max(chord, 1e-300) + 2.0 / max(1e-9, abs(math.pi - abs(src.sweep)))
    return dev <= est * 50 * min(amplification, 1e6)
