"""C20 - writing a document and parsing it back preserves shapes and paint."""
import copy
import gzip
import io
import math
import os
import tempfile
import xml.etree.ElementTree as ET

from .. import docmon as DM
from ..gen import documents as GD
from ..gen import transforms as GT
from . import c03

ID = "C20"
RULE = (
    "source trees: (a) C03 documents with presentation attributes parsed with reify True and False, (b) trees built through the "
    "constructors (SVG / Group containing every shape kind, matrices of positive and negative determinant incl. ones that move a "
    "coordinate to exactly 0, viewBox present or absent, unit-bearing lengths); written with string_xml() and with write_xml() to a "
    "temporary file (plain .svg and gzip .svgz). Oracle: the text is well-formed XML (xml.etree); SVG.parse of it yields the same "
    "shapes in the same order with the same ids, every segment of abs(Path(shape)) at five points within the six-decimal precision "
    "of the written matrices (scaled by the viewport transform), the same fill / stroke (rgb, alpha +-1) and effective stroke width; "
    "the second generation write(parse(write(x))) parses to the same shapes as the first. Non-trivial = at least two shapes."
)
BUDGET = {"quick": 6000, "thorough": 200000}
TIME_CAP = {"quick": 240, "thorough": 1700}
ANCHORS = ["_write_node", "tostring", "write", "_pretty_print", "SVG.parse", "Rect.reify", "_RoundShape.reify", "Matrix.inverse"]
REQUIRED_MONITORS = ["well-formed", "shape-list", "geometry", "paint", "second-generation", "file-output", "source-unchanged"]
STRATA = ["parsed-reified", "parsed-lazy", "built", "built-viewbox"]


def strata_minimum(tier):
    f = 1 if tier == "quick" else 30
    return {s: 600 * f for s in STRATA}


def nontrivial(case):
    return case.get("shapes", 2) >= 2


def _num(R, lo=-50, hi=50):
    k = R.random()
    if k < 0.15:
        return 0.0
    if k < 0.6:
        return float(R.randint(lo, hi))
    return round(R.uniform(lo, hi), 3)


def _pos(R, hi=40):
    return float(R.randint(1, hi)) if R.random() < 0.6 else round(R.uniform(0.5, hi), 3)


def gen_built(R, viewbox):
    """a plain description of a constructor-built tree"""
    def matrix():
        k = R.random()
        if k < 0.25:
            return None
        if k < 0.4:
            return [1.0, 0.0, 0.0, 1.0, _num(R), _num(R)]
        if k < 0.55:
            s = R.choice([2.0, 0.5, -1.0, 3.0])
            return [s, 0.0, 0.0, R.choice([s, -s, 1.0]), _num(R), _num(R)]
        if k < 0.7:
            a = math.radians(R.choice([30, 90, 180, -45]))
            return [math.cos(a), math.sin(a), -math.sin(a), math.cos(a), _num(R), _num(R)]
        while True:
            m = [round(R.uniform(-3, 3), 3) for _ in range(4)] + [_num(R), _num(R)]
            if abs(m[0] * m[3] - m[1] * m[2]) > 0.1:
                return m

    def paint():
        p = {}
        if R.random() < 0.6:
            p["fill"] = R.choice(["red", "#00f", "none", "#12ab3480", "rgb(10,200,30)", "#65432100"])
        if R.random() < 0.6:
            p["stroke"] = R.choice(["blue", "#123456", "none", "#fa08", "rgba(5,6,7,0)"])
        if R.random() < 0.5:
            p["stroke_width"] = R.choice([2.0, 0.5, 3.25, 0.0])
        return p

    def shape(i):
        kind = R.choice(GD.SHAPES)
        s = {"kind": kind, "id": "s%d" % i, "m": matrix(), "paint": paint(), "late": R.random() < 0.4}
        unit = (lambda v: "%r%s" % (v, R.choice(["px", "pt", "pc"]))) if R.random() < 0.15 else (lambda v: v)
        # a coordinate that the matrix moves to exactly zero
        zero = s["m"] is not None and s["m"][1] == 0 and s["m"][2] == 0 and R.random() < 0.3
        x, y = _num(R), _num(R)
        if zero and s["m"][0] != 0:
            x = -s["m"][4] / s["m"][0]
            s["zeroed"] = True
        if kind == "rect":
            s["args"] = {"x": unit(x), "y": unit(y), "width": unit(_pos(R)), "height": unit(_pos(R))}
            if R.random() < 0.4:
                s["args"]["rx"] = _pos(R, 10)
                if R.random() < 0.5:
                    s["args"]["ry"] = _pos(R, 10)
        elif kind == "circle":
            s["args"] = {"cx": unit(x), "cy": unit(y), "r": unit(_pos(R))}
        elif kind == "ellipse":
            s["args"] = {"cx": unit(x), "cy": unit(y), "rx": unit(_pos(R)), "ry": unit(_pos(R))}
        elif kind == "line":
            s["args"] = {"x1": unit(x), "y1": unit(y), "x2": unit(_num(R)), "y2": unit(_num(R))}
        elif kind in ("polyline", "polygon"):
            s["args"] = {"points": [[x, y]] + [[_num(R), _num(R)] for _ in range(R.randint(1, 4))]}
        else:
            from ..gen import pathdata as PD
            prog = PD.program(R, maxcmd=4, letters="MLHVCSQTAZmlhvcsqtaz", zprob=0.0, num=lambda r: _num(r))
            s["args"] = {"d": PD.spell_program(None, prog, plain=True)}
        return s

    n = [0]

    def group(depth):
        g = {"kind": "group", "id": "g%d" % n[0], "m": matrix() if R.random() < 0.5 else None, "children": []}
        n[0] += 1
        for _ in range(R.randint(1, 3)):
            if depth > 0 and R.random() < 0.3:
                g["children"].append(group(depth - 1))
            else:
                n[0] += 1
                g["children"].append(shape(n[0]))
        return g

    t = {"children": [], "viewbox": None, "width": float(R.randint(50, 400)), "height": float(R.randint(50, 400))}
    if viewbox:
        t["viewbox"] = [_num(R, -20, 20), _num(R, -20, 20), _pos(R, 200), _pos(R, 200)]
        t["par"] = R.choice([None, "none", "xMinYMax slice", "xMidYMid meet"])
    for _ in range(R.randint(1, 4)):
        if R.random() < 0.4:
            t["children"].append(group(1))
        else:
            n[0] += 1
            t["children"].append(shape(n[0]))
    return t


FOREIGN_ATTRS = [("xlink:title", "a title"), ("xlink:role", "r"), ("data-note", 'a<b & "c" \'d\' >'), ("ink:label", "layer 1"), ("xml:space", "preserve"),
                 ("aria-label", "x\ty"), ("ink:groupmode", "layer"), ("data-empty", ""), ("xlink:title", "caf\u00e9 \u2264")]


def add_foreign(R, doc):
    """content the writer must carry or drop without damaging the text: attributes in the xlink / xml / a foreign namespace, attribute
    values with XML-special characters, and non-shape elements (text, image with xlink:href, descriptive, unknown) among the shapes"""
    from . import c10
    doc.setdefault("attrs", {})["xmlns:ink"] = "http://www.inkscape.org/namespaces/inkscape"
    nodes = [n for n in GD.walk(doc) if n["tag"] != "defs"]
    for _ in range(R.randint(1, 3)):
        k, v = R.choice(FOREIGN_ATTRS)
        R.choice(nodes).setdefault("attrs", {})[k] = v
    if R.random() < 0.5:
        c10.add_other_elements(R, doc)
        for n in GD.walk(doc):
            if n["tag"] == "image" and R.random() < 0.7:
                n["attrs"]["xlink:href"] = n["attrs"].pop("href")
            if n["tag"] in ("text", "title", "desc") and n.get("text") and R.random() < 0.5:
                n["text"] = "a &lt; b &amp; c"


def gen_case(R, index, tier):
    st = STRATA[index % len(STRATA)]
    how = R.choice(["string", "string", "file", "svgz"])
    if st.startswith("parsed"):
        opts = {"units": 0.15, "percent": 0.1, "nested_svg": 0.25, "use": 0.4, "hidden": 0.05, "depth": 3 if tier == "quick" else 5}
        if R.random() < 0.5:
            opts.update(nested_svg=0.0, use=0.0)
        doc = GD.add_paint(R, GD.generate(R, opts), 0.3)
        if R.random() < 0.35:
            add_foreign(R, doc)
        return {"stratum": st, "doc": doc, "reify": st == "parsed-reified", "how": how, "features": sorted({n["tag"] for n in GD.walk(doc) if n["tag"] in ("use",) or (n["tag"] == "svg" and not n.get("root"))})}
    return {"stratum": st, "tree": gen_built(R, st == "built-viewbox"), "how": how, "reify_built": R.random() < 0.5}


def shrink_candidates(case):
    if "doc" in case:
        doc = case["doc"]
        for n in GD.walk(doc):
            if n is doc:
                continue
            c = copy.deepcopy(case)
            c["doc"] = GD.remove_ids(doc, {n["id"]})
            yield c
        for n in GD.walk(doc):
            if n.get("tf"):
                c = copy.deepcopy(case)
                m = GD.find(c["doc"], n["id"])
                m["tf"], m["tftext"] = None, None
                yield c
            if n.get("attrs"):
                c = copy.deepcopy(case)
                GD.find(c["doc"], n["id"])["attrs"] = {}
                yield c
            for k, l in n.get("geom", {}).items():
                if l[1] != "":
                    c = copy.deepcopy(case)
                    GD.find(c["doc"], n["id"])["geom"][k] = [l[0], ""]
                    yield c
        if case.get("how") != "string":
            c = copy.deepcopy(case)
            c["how"] = "string"
            yield c
    else:
        t = case["tree"]

        def paths(node, pre):
            for i, ch in enumerate(node["children"]):
                yield pre + [i]
                if ch["kind"] == "group":
                    yield from paths(ch, pre + [i])
        for pth in list(paths(t, [])):
            c = copy.deepcopy(case)
            node = c["tree"]
            for i in pth[:-1]:
                node = node["children"][i]
            del node["children"][pth[-1]]
            yield c
        for pth in list(paths(t, [])):
            c = copy.deepcopy(case)
            node = c["tree"]
            for i in pth:
                node = node["children"][i]
            if node.get("m") is not None:
                node["m"] = None
                yield c
            elif node.get("paint"):
                node["paint"] = {}
                yield c


def build_tree(S, t, reify):
    svg = S.SVG()
    svg.width, svg.height = t["width"], t["height"]
    svg.x = svg.y = 0
    if t.get("viewbox"):
        svg.viewbox = S.Viewbox("%r %r %r %r" % tuple(t["viewbox"]), t.get("par"))

    def mk(d):
        if d["kind"] == "group":
            g = S.Group()
            g.id = d["id"]
            if d.get("m"):
                g.transform = S.Matrix(*d["m"])
            for ch in d["children"]:
                c = mk(ch)
                if d.get("m"):
                    c *= S.Matrix(*d["m"])  # what the parser does: children carry the accumulated matrix
                g.append(c)
            return g
        a = dict(d["args"])
        kw = dict(d["paint"])
        late = d.get("late")  # id and paint assigned to the object after construction: only the writer's own emission can carry them
        if late:
            kw = {}
        else:
            kw["id"] = d["id"]
        k = d["kind"]
        if k == "rect":
            o = S.Rect(**a, **kw)
        elif k == "circle":
            o = S.Circle(**a, **kw)
        elif k == "ellipse":
            o = S.Ellipse(**a, **kw)
        elif k == "line":
            o = S.SimpleLine(**a, **kw)
        elif k == "polyline":
            o = S.Polyline(points=[tuple(p) for p in a["points"]], **kw)
        elif k == "polygon":
            o = S.Polygon(points=[tuple(p) for p in a["points"]], **kw)
        else:
            o = S.Path(a["d"], **kw)
        if late:
            o.id = d["id"]
            for key, val in d["paint"].items():
                if key == "stroke_width":
                    o.stroke_width = val
                else:
                    setattr(o, key, S.Color(val))
        o.render(ppi=96.0, width=t["width"], height=t["height"])
        if d.get("m"):
            o *= S.Matrix(*d["m"])
        return o
    for ch in t["children"]:
        svg.append(mk(ch))
    if t.get("viewbox"):
        vt = S.Matrix(svg.viewbox_transform)
        for e in svg.elements():
            if isinstance(e, S.Shape):
                e *= vt
    if reify:
        for e in svg.elements():
            if isinstance(e, S.Shape):
                e.reify()
    return svg


def colour(c):
    if c is None or c.value is None:
        return None
    return (c.red, c.green, c.blue, c.alpha)


def effective_width(s):
    t = s.transform
    ident = max(abs(t.a - 1), abs(t.b), abs(t.c), abs(t.d - 1), abs(t.e), abs(t.f)) <= 1e-9
    w = s.stroke_width if ident else s.implicit_stroke_width
    return None if w is None else float(w)


def describe(S, svg):
    out = []
    for s in DM.shapes(S, svg):
        loc = [(seg.end.x, seg.end.y) for seg in s.segments(transformed=False) if seg.end is not None]
        L = max([1.0] + [max(abs(x), abs(y)) for x, y in loc])
        t = s.transform
        # an unset fill is the SVG default (black), an unset stroke is none: that is what an omitted attribute means on the way back
        fill = (0, 0, 0, 255) if s.fill is None else colour(s.fill)
        tag = DM.tag_of(s)
        out.append({"tag": "round" if tag in ("circle", "ellipse") else tag, "id": s.id, "geo": DM.lib_geometry(S, s), "fill": fill, "stroke": colour(s.stroke), "width": effective_width(s), "L": L,
                    "t": (t.a, t.b, t.c, t.d, t.e, t.f),
                    "vp": s.values.get("viewport_transform", "") if hasattr(s, "values") and isinstance(s.values, dict) else ""})
    return out


def write_out(S, svg, how):
    if how == "string":
        return svg.string_xml()
    d = tempfile.mkdtemp(prefix="rtmon-c20-")
    try:
        f = os.path.join(d, "out.svgz" if how == "svgz" else "out.svg")
        svg.write_xml(f)
        if how == "svgz":
            with gzip.open(f, "rb") as fh:
                return fh.read().decode("utf-8")
        with open(f, "rb") as fh:
            return fh.read().decode("utf-8")
    finally:
        for n in os.listdir(d):
            os.unlink(os.path.join(d, n))
        os.rmdir(d)


def compare_lists(S, ctx, a, b, what, feature, monitor, text, quiet=False):
    """a: expected descriptions, b: re-parsed.  -> None when equal, else (key, detail, monitor, info)"""
    r = _compare_lists(S, ctx if not quiet else _Quiet(), a, b, what, feature, monitor, text)
    return r


class _Quiet:
    def mon(self, *a, **k):
        pass

    def see(self, name, ratio):
        return ratio

    def note(self, *a, **k):
        pass


def _compare_lists(S, ctx, a, b, what, feature, monitor, text):
    ctx.mon("shape-list")
    ia, ib = [(x["tag"], x["id"]) for x in a], [(x["tag"], x["id"]) for x in b]
    if ia != ib:
        kinds_a, kinds_b = [x[0] for x in ia], [x[0] for x in ib]
        if len(ia) != len(ib):
            how = "count"
        elif kinds_a != kinds_b:
            how = "kind"
        else:
            how = "id"
        return ("%s/shape-list/%s/%s" % (what, how, feature), "%s: shapes %s, expected %s; written text %s" % (what, ib, ia, text), "shape-list", {})
    for x, y in zip(a, b):
        ctx.mon(monitor)
        ka, kb = "".join(k for k, _ in x["geo"]), "".join(k for k, _ in y["geo"])
        if ka != kb:
            return ("%s/segment-kinds/%s/%s" % (what, x["tag"], feature), "%s: %s #%s has segments %s, expected %s; written text %s" % (what, x["tag"], x["id"], kb, ka, text), monitor, {"tag": x["tag"]})
        try:
            vp = S.Matrix(y["vp"]) if y["vp"] else S.Matrix()
            k = max(1.0, math.sqrt(vp.a ** 2 + vp.b ** 2 + vp.c ** 2 + vp.d ** 2))
        except Exception:
            k = 1.0
        S_abs = max([1.0] + [max(abs(p[0]), abs(p[1])) for _, pts in x["geo"] for p in pts])
        # the written matrix acts on the element's own coordinates: the compared points taken back through the source matrix
        # (an arc with large radii reaches far beyond its end points)
        L = max(x["L"], y["L"])
        try:
            a_, b_, c_, d_, e_, f_ = x["t"]
            det = a_ * d_ - b_ * c_
            for _, pts in x["geo"]:
                for px, py in pts:
                    u, v = px - e_, py - f_
                    L = max(L, abs((d_ * u - c_ * v) / det), abs((-b_ * u + a_ * v) / det))
        except ZeroDivisionError:
            pass
        bound = 3e-6 * (2 * L + 1) * k + 1e-9 * S_abs
        for (kk, pa), (_, pb) in zip(x["geo"], y["geo"]):
            size = max([math.hypot(p[0] - pa[0][0], p[1] - pa[0][1]) for p in pa])
            bnd = bound + (2e-5 * size if kk == "A" else 0.0)  # arc parameters are written with six digits too
            dev = max(math.hypot(p[0] - q[0], p[1] - q[1]) for p, q in zip(pa, pb))
            if ctx.see("%s-%s" % (monitor, kk), dev / bnd) > 1:
                return ("%s/geometry/%s/%s" % (what, x["tag"], feature), "%s: %s #%s segment %s passes %s, expected %s (deviation %.3g, bound %.3g); written text %s" % (
                    what, x["tag"], x["id"], kk, pb, pa, dev, bnd, text), monitor, {"tag": x["tag"], "kind": kk})
        ctx.mon("paint")
        for p in ("fill", "stroke"):
            ca, cb = x[p], y[p]
            if (ca is None) != (cb is None) or (ca is not None and (tuple(ca[:3]) != tuple(cb[:3]) or abs(ca[3] - cb[3]) > 1)):
                if ca is not None and cb is not None and tuple(ca[:3]) == tuple(cb[:3]):
                    how = "alpha"
                elif ca is not None and ca[3] == 0:
                    how = "fully-transparent"
                else:
                    how = "colour"
                return ("%s/paint/%s/%s/%s" % (what, p, how, feature), "%s: %s #%s has %s %s, expected %s; written text %s" % (what, x["tag"], x["id"], p, cb, ca, text), "paint", {"tag": x["tag"]})
        wa, wb = x["width"], y["width"]
        visible = x["stroke"] is not None
        # the width is scaled by sqrt|det| of a matrix written with six decimals: relative error ~ 1e-6 * sum|entries| / |det| of the written matrix
        wtol = 1e-9
        if wa is not None:
            try:
                tw = S.Matrix(*x["t"]) * ~vp
                wtol += abs(wa) * 2e-6 * (1.0 + (abs(tw.a) + abs(tw.b) + abs(tw.c) + abs(tw.d)) / max(abs(tw.a * tw.d - tw.b * tw.c), 1e-300))
            except Exception:
                wtol += abs(wa) * 1e-4
        if visible and ((wa is None) != (wb is None) or (wa is not None and abs(wa - wb) > wtol)):
            return ("%s/paint/stroke-width/%s" % (what, feature), "%s: %s #%s has stroke width %r, expected %r; written text %s" % (what, x["tag"], x["id"], wb, wa, text), "paint", {"tag": x["tag"]})
    return None


def run_case(S, case, ctx):
    if "doc" in case:
        xml = GD.to_xml(case["doc"])
        try:
            src = DM.parse(S, xml, {"reify": case["reify"]})
        except Exception as e:
            ctx.undecided("source-parse-failed/%s" % type(e).__name__)
            return
        feature = "+".join(case.get("features", [])) or "flat"
        feature = ("reified/" if case["reify"] else "lazy/") + feature
        origin = "source document %s" % xml
    else:
        try:
            src = build_tree(S, case["tree"], case.get("reify_built", False))
        except Exception as e:
            ctx.violation("build/%s" % type(e).__name__, "constructing %s: %r" % (case["tree"], e), monitor="well-formed")
            return
        feature = ("built-reified" if case.get("reify_built") else "built-lazy") + ("/viewbox" if case["tree"].get("viewbox") else "")
        origin = "built tree %s" % case["tree"]
    try:
        want = describe(S, src)
    except Exception as e:
        ctx.undecided("source-not-evaluable/%s" % type(e).__name__)
        return
    case["shapes"] = len(want)
    ctx.maxval("shapes per tree", len(want))
    how = case.get("how", "string")
    ctx.mon("well-formed")
    if how != "string":
        ctx.mon("file-output")
    try:
        text = write_out(S, src, how)
    except Exception as e:
        ctx.violation("write-raises/%s/%s" % (type(e).__name__, DM_where(e)), "%s of the %s raised %r" % (how, origin, e), monitor="well-formed")
        return
    # writing is an observation: the source tree must come out of it unchanged
    ctx.mon("source-unchanged")
    try:
        after = describe(S, src)
    except Exception as e:
        after = None
    if after is None or compare_lists(S, ctx, want, after, "source-after-write", feature, "source-unchanged", "", quiet=True) is not None or any(
            a["t"] != b["t"] for a, b in zip(want, after)):
        ctx.violation("write-mutates-the-source-tree/%s" % feature.split("/")[0], "after %s the source tree differs from what it was before (transforms %s -> %s); %s" % (
            how, [a["t"] for a in want][:3], [b["t"] for b in (after or [])][:3], origin), monitor="source-unchanged")
        return
    try:
        ET.fromstring(text)
    except ET.ParseError as e:
        ctx.violation("not-well-formed/%s" % feature.split("/")[0], "written text is not well-formed XML (%s): %s; %s" % (e, text, origin), monitor="well-formed")
        return
    rf = case.get("reify", case.get("reify_built", False))
    try:
        back = DM.parse(S, text, {"reify": rf})
        got = describe(S, back)
    except Exception as e:
        ctx.violation("reparse-raises/%s" % type(e).__name__, "parsing the written text raised %r: %s; %s" % (e, text, origin), monitor="shape-list")
        return
    r = compare_lists(S, ctx, want, got, "first-generation", feature, "geometry", text + " <- " + origin)
    if r is not None:
        key, detail, mon, info = r
        if info.get("tag") == "path" and info.get("kind") == "A" and arcs_explain(S, ctx, src, text, want, feature, rf):
            key = "first-generation/geometry/path/arc-parameters-written-with-6-digits"
        ctx.violation(key, detail, monitor=mon)
        return
    ctx.mon("second-generation")
    try:
        text2 = back.string_xml()
        ET.fromstring(text2)
        got2 = describe(S, DM.parse(S, text2, {"reify": rf}))
    except Exception as e:
        ctx.violation("second-generation-raises/%s" % type(e).__name__, "%r: %s" % (e, text), monitor="second-generation")
        return
    r = compare_lists(S, ctx, got, got2, "second-generation", feature, "second-generation", text2 + " <- " + text)
    if r is not None:
        key, detail, mon, info = r
        if info.get("tag") == "path" and info.get("kind") == "A" and arcs_explain(S, ctx, back, text2, got, feature, rf):
            key = "second-generation/geometry/path/arc-parameters-written-with-6-digits"
        ctx.violation(key, detail, monitor=mon)


def arcs_explain(S, ctx, src, text, want, feature, rf):
    """does the written text match once every arc's radii and rotation are given with full precision (Arc.d() prints six digits)?"""
    from . import c07
    try:
        root = ET.fromstring(text)
        paths = [e for e in root.iter() if e.tag.endswith("}path") or e.tag == "path"]
        shapes = [s for s in DM.shapes(S, src) if isinstance(s, S.Path)]
        if len(paths) != len(shapes):
            return False
        changed = False
        for e, sh in zip(paths, shapes):
            d = e.get("d")
            if d is None or not any(isinstance(seg, S.Arc) for seg in sh):
                continue
            fixed = c07.repaired_arc_text(S, d, list(sh))
            if fixed is None:
                return False
            e.set("d", fixed)
            changed = True
        if not changed:
            return False
        text2 = ET.tostring(root, encoding="unicode")
        got = describe(S, DM.parse(S, text2, {"reify": rf}))
    except Exception:
        return False
    return compare_lists(S, ctx, want, got, "x", feature, "geometry", "", quiet=True) is None


def DM_where(e):
    from .c10 import where_raised
    return where_raised(e)
