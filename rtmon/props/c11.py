"""C11 - the viewport transform equals the SVG 2 'equivalent transform' algorithm."""
import io
import math

from ..num import m_apply, m_of
from ..ref import viewportref as V

ID = "C11"
RULE = (
    "all ten align values x {absent, meet, slice} plus an absent preserveAspectRatio (31 combinations, enumerated by the case "
    "index) crossed with element and viewBox sizes log-uniform over 1e-3..1e3 (element wider / viewBox wider / equal aspect), "
    "negative, fractional and zero origins; through Viewbox.viewbox_transform, Viewbox(...).transform(element) and SVG.parse "
    "(size from px / unit / percent attributes, caller width/height, one of them only, or the viewBox size), nested svg; missing, "
    "incomplete and zero-sized viewBoxes. The library's matrix is compared with the 8.2 algorithm and, independently, with the "
    "geometric post-conditions (uniform scale, inside / covering, touching, alignment). Non-trivial = a complete viewBox."
)
BUDGET = {"quick": 62000, "thorough": 3100000}
TIME_CAP = {"quick": 240, "thorough": 1500}
ANCHORS = ["Viewbox.viewbox_transform", "Viewbox.__init__", "Viewbox.set_viewbox", "Viewbox.property_by_values", "Viewbox.transform", "Length.str", "SVG.render", "SVG.property_by_values"]
REQUIRED_MONITORS = ["matrix-vs-8.2", "geometric-postconditions", "through-parse", "incomplete-viewbox", "zero-viewbox"]

PARS = [None] + [(a, m) for a in V.ALIGNS for m in (None, "meet", "slice")]  # 31


def strata_minimum(tier):
    f = 1 if tier == "quick" else 20
    return {"direct": 15000 * f, "object": 7000 * f, "parse-root": 12000 * f, "parse-nested": 4000 * f, "incomplete": 1000 * f, "zero": 1000 * f}


def nontrivial(case):
    return case["stratum"] not in ("incomplete", "zero")


def _size(R):
    return R.choice([1.0, 100.0, float(R.randint(1, 500)), 10 ** R.uniform(-3, 3), round(10 ** R.uniform(-1, 3), 2)])


def _origin(R):
    return R.choice([0.0, 0.0, float(R.randint(-200, 200)), round(R.uniform(-50, 50), 3), -0.5])


def gen_case(R, index, tier):
    par = PARS[index % len(PARS)]
    k = R.random()
    asp = R.choice(["element-wider", "viewbox-wider", "equal", "free"])
    vw, vh = _size(R), _size(R)
    if asp == "equal":
        s = R.choice([1.0, 2.0, 0.5, 10 ** R.uniform(-2, 2)])
        ew, eh = vw * s, vh * s
    else:
        ew, eh = _size(R), _size(R)
        if asp == "element-wider" and ew / eh < vw / vh:
            ew, eh = eh * (vw / vh) * R.uniform(1.1, 5), eh
        if asp == "viewbox-wider" and ew / eh > vw / vh:
            eh = ew / (vw / vh) * R.uniform(1.1, 5)
    case = {"par": list(par) if par else None, "vb": [_origin(R), _origin(R), vw, vh], "e": [_origin(R), _origin(R), ew, eh], "aspect": asp}
    if k < 0.34:
        case["stratum"] = "direct"
    elif k < 0.5:
        case["stratum"] = "object"
    elif k < 0.80:
        case["stratum"] = "parse-root"
        case["size"] = R.choice(["px", "px", "units", "percent", "absent", "caller-both", "caller-width-only", "caller-height-only", "width-attr-only"])
        case["unit"] = R.choice(["in", "cm", "mm", "pt", "pc"])
        case["ppi"] = R.choice([72.0, 96.0, 254.0])
        case["e"][0] = case["e"][1] = 0.0
    elif k < 0.90:
        case["stratum"] = "parse-nested"
        case["outer"] = [float(R.randint(50, 900)), float(R.randint(50, 900))]
        case["outer_par"] = R.choice([None, "none", "xMinYMin slice", "xMaxYMax meet", "xMidYMin slice"])
        case["size"] = R.choice(["px", "percent"])
    elif k < 0.95:
        case["stratum"] = "incomplete"
        case["how"] = R.choice(["missing", "three", "two", "empty", "letters"])
    else:
        case["stratum"] = "zero"
        case["how"] = R.choice(["vb-width", "vb-height", "both", "e-width", "e-height"])
        case["nested"] = R.random() < 0.5
    return case


def par_text(par):
    if par is None:
        return None
    a, m = par
    return a if m is None else "%s %s" % (a, m)


def check_matrix(ctx, got, e, vb, par, what, key, rel=1e-9):
    """the 8.2 algorithm and the geometric post-conditions"""
    ctx.mon("matrix-vs-8.2")
    ref = V.transform(e[0], e[1], e[2], e[3], vb, par)
    if ref is None:
        return True
    # the library prints scale and translate with 12 decimals
    mag = max(1.0, abs(e[0]) + e[2], abs(e[1]) + e[3])
    tol_s = 2e-12 + rel * max(ref[0], ref[3])
    tol_t = 2e-12 + rel * (mag + max(ref[0], ref[3]) * max(abs(vb[0]) + vb[2], abs(vb[1]) + vb[3])) + 2e-12 * max(abs(vb[0]) + vb[2], abs(vb[1]) + vb[3])
    dev_s = max(abs(got[0] - ref[0]), abs(got[3] - ref[3]), abs(got[1]), abs(got[2]))
    dev_t = max(abs(got[4] - ref[4]), abs(got[5] - ref[5]))
    r = max(ctx.see("scale", dev_s / tol_s), ctx.see("translate", dev_t / tol_t))
    if r > 1:
        align = par[0] if par else "absent"
        mos = (par[1] or "default") if par else "absent"
        which = "scale" if dev_s / tol_s > 1 else "translate"
        ctx.violation("%s/%s/%s/%s" % (key, which, "none" if align == "none" else ("aligned-" + mos), _axis_feature(e, vb)),
                      "%s = %s, SVG 2 8.2 gives %s (element %s, viewBox %s, preserveAspectRatio %s)" % (what, got, ref, e, vb, par_text(par)), monitor="matrix-vs-8.2")
        return False
    # geometric post-conditions on the library's own matrix
    ctx.mon("geometric-postconditions")
    align = par[0] if par else "xMidYMid"
    mos = (par[1] if par and par[1] else "meet")
    sx, sy = got[0], got[3]
    x0, y0 = m_apply(got, (vb[0], vb[1]))
    x1, y1 = m_apply(got, (vb[0] + vb[2], vb[1] + vb[3]))
    ex0, ey0, ex1, ey1 = e[0], e[1], e[0] + e[2], e[1] + e[3]
    tw = rel * (max(1.0, abs(ex0), abs(ex1), e[2]) + max(sx, sy) * (abs(vb[0]) + vb[2])) + 4e-12 * (abs(vb[0]) + vb[2] + 1)
    th = rel * (max(1.0, abs(ey0), abs(ey1), e[3]) + max(sx, sy) * (abs(vb[1]) + vb[3])) + 4e-12 * (abs(vb[1]) + vb[3] + 1)
    bad = None
    if align == "none":
        if abs(x0 - ex0) > tw or abs(x1 - ex1) > tw or abs(y0 - ey0) > th or abs(y1 - ey1) > th:
            bad = "align none must map the viewBox exactly onto the viewport"
    else:
        if abs(sx - sy) > rel * max(sx, sy) + 2e-12:
            bad = "scale is not uniform"
        inside = x0 >= ex0 - tw and x1 <= ex1 + tw and y0 >= ey0 - th and y1 <= ey1 + th
        covers = x0 <= ex0 + tw and x1 >= ex1 - tw and y0 <= ey0 + th and y1 >= ey1 - th
        touch_x = abs((x1 - x0) - e[2]) <= 2 * tw
        touch_y = abs((y1 - y0) - e[3]) <= 2 * th
        if mos == "meet" and not inside:
            bad = "meet: the viewBox image is not inside the viewport"
        elif mos == "slice" and not covers:
            bad = "slice: the viewBox image does not cover the viewport"
        elif not (touch_x or touch_y):
            bad = "the viewBox image touches the viewport in neither dimension"
        else:
            ax, ay = align[1:4], align[5:8]
            want_x = {"Min": (x0, ex0), "Mid": ((x0 + x1) / 2, (ex0 + ex1) / 2), "Max": (x1, ex1)}[ax]
            want_y = {"Min": (y0, ey0), "Mid": ((y0 + y1) / 2, (ey0 + ey1) / 2), "Max": (y1, ey1)}[ay]
            if abs(want_x[0] - want_x[1]) > tw:
                bad = "x alignment %s violated" % ax
            elif abs(want_y[0] - want_y[1]) > th:
                bad = "y alignment %s violated" % ay
    if bad:
        ctx.violation("%s/postcondition/%s" % (key, bad.split(":")[0].split(" ")[0]), "%s = %s: %s (viewBox image (%r,%r)-(%r,%r), viewport (%r,%r)-(%r,%r), %s)" % (
            what, got, bad, x0, y0, x1, y1, ex0, ey0, ex1, ey1, par_text(par)), monitor="geometric-postconditions")
        return False
    return True


def _axis_feature(e, vb):
    f = []
    if vb[0] != 0 or vb[1] != 0:
        f.append("vb-origin")
    if abs(e[2] / e[3] - vb[2] / vb[3]) > 1e-9 * (vb[2] / vb[3]):
        f.append("aspect-differs")
    return "+".join(f) or "plain"


def run_case(S, case, ctx):
    st = case["stratum"]
    par = tuple(case["par"]) if case["par"] else None
    pt = par_text(par)
    e, vb = case["e"], case["vb"]
    if st == "direct":
        try:
            text = S.Viewbox.viewbox_transform(e[0], e[1], e[2], e[3], vb[0], vb[1], vb[2], vb[3], pt)
            got = m_of(S.Matrix(text))
        except Exception as ex:
            ctx.violation("direct/raises/%s" % type(ex).__name__, "viewbox_transform(%s, %s, %r): %r" % (e, vb, pt, ex), monitor="matrix-vs-8.2")
            return
        check_matrix(ctx, got, e, vb, par, "Matrix(Viewbox.viewbox_transform(%s, %s, %r) = %r)" % (e, vb, pt, text), "direct")
        return
    if st == "object":
        class El:
            pass
        el = El()
        el.x, el.y, el.width, el.height = e
        try:
            if case["aspect"] == "free":
                v = S.Viewbox({"viewBox": "%r %r %r %r" % tuple(vb), "preserveAspectRatio": pt} if pt else {"viewBox": "%r,%r,%r,%r" % tuple(vb)})
            else:
                v = S.Viewbox("%r %r %r %r" % tuple(vb), pt)
            got = m_of(S.Matrix(v.transform(el)))
        except Exception as ex:
            ctx.violation("object/raises/%s" % type(ex).__name__, "Viewbox(%s, %r).transform(%s): %r" % (vb, pt, e, ex), monitor="matrix-vs-8.2")
            return
        # the viewBox went through text: compare with what the text denotes
        vb2 = [float("%r" % v_) for v_ in vb]
        check_matrix(ctx, got, e, vb2, par, "Viewbox(%s, %r).transform(element %s)" % (vb, pt, e), "object")
        return
    if st in ("parse-root", "parse-nested"):
        return _run_parse(S, case, ctx, par, pt)
    if st == "incomplete":
        ctx.mon("incomplete-viewbox")
        how = case["how"]
        vbtxt = {"missing": None, "three": "0 0 100", "two": "5 5", "empty": "", "letters": "a b c d"}[how]
        attr = "" if vbtxt is None else ' viewBox="%s"' % vbtxt
        doc = '<svg xmlns="http://www.w3.org/2000/svg" width="%r" height="%r"%s%s><rect id="r" x="1" y="2" width="3" height="4"/></svg>' % (
            e[2], e[3], attr, (' preserveAspectRatio="%s"' % pt) if pt else "")
        try:
            svg = S.SVG.parse(io.StringIO(doc), reify=True)
            shapes = [s for s in svg.elements() if isinstance(s, S.Rect)]
        except Exception as ex:
            ctx.violation("incomplete-viewbox/raises/%s/%s" % (type(ex).__name__, how), "%s: %r" % (doc, ex), monitor="incomplete-viewbox")
            return
        if len(shapes) != 1 or tuple(round(v, 9) for v in shapes[0].bbox()) != (1.0, 2.0, 4.0, 6.0):
            ctx.violation("incomplete-viewbox/not-identity/%s" % how, "%s: the rect came out as %r" % (doc, [s.bbox() for s in shapes]), monitor="incomplete-viewbox")
        # and through the static method
        t = S.Viewbox.viewbox_transform(0, 0, e[2], e[3], None, None, None, None, pt)
        if t not in ("", None) and m_of(S.Matrix(t)) != (1.0, 0.0, 0.0, 1.0, 0.0, 0.0):
            ctx.violation("incomplete-viewbox/not-identity/static", "viewbox_transform with a missing viewBox gave %r" % t, monitor="incomplete-viewbox")
        return
    # zero sized
    ctx.mon("zero-viewbox")
    how = case["how"]
    vb2 = list(vb)
    e2 = list(e)
    if how in ("vb-width", "both"):
        vb2[2] = 0.0
    if how in ("vb-height", "both"):
        vb2[3] = 0.0
    if how == "e-width":
        e2[2] = 0.0
    if how == "e-height":
        e2[3] = 0.0
    inner = '<svg width="%r" height="%r" viewBox="%r %r %r %r"%s><rect id="z" x="0" y="0" width="5" height="5"/></svg>' % (
        e2[2], e2[3], vb2[0], vb2[1], vb2[2], vb2[3], (' preserveAspectRatio="%s"' % pt) if pt else "")
    if case["nested"]:
        doc = '<svg xmlns="http://www.w3.org/2000/svg" width="300" height="200"><rect id="before" x="1" y="1" width="2" height="2"/>%s<rect id="after" x="7" y="7" width="2" height="2"/></svg>' % inner
    else:
        doc = inner.replace("<svg ", '<svg xmlns="http://www.w3.org/2000/svg" ', 1)
    try:
        svg = S.SVG.parse(io.StringIO(doc), reify=True)
        ids = [s.id for s in svg.elements() if isinstance(s, S.Shape)]
    except Exception as ex:
        ctx.violation("zero-viewbox/raises/%s/%s" % (type(ex).__name__, how), "%s: %r" % (doc, ex), monitor="zero-viewbox")
        return
    if "z" in ids:
        ctx.violation("zero-viewbox/content-rendered/%s" % how, "%s: the content of the zero-sized svg was rendered (%s)" % (doc, ids), monitor="zero-viewbox")
        return
    if case["nested"] and ids != ["before", "after"]:
        ctx.violation("zero-viewbox/rest-of-document-lost/%s" % ("nested-" + how), "%s: shapes returned %s, expected before and after (a zero-sized svg disables its own rendering only)" % (doc, ids), monitor="zero-viewbox")


def _run_parse(S, case, ctx, par, pt):
    ctx.mon("through-parse")
    rel_pct = 0.0
    e, vb = list(case["e"]), case["vb"]
    st = case["stratum"]
    ppi = case.get("ppi", 96.0)
    kwargs = {"reify": True, "ppi": ppi}
    vbtxt = "%r %r %r %r" % tuple(vb)
    vb2 = [float("%r" % v_) for v_ in vb]
    # a rect that covers the viewBox: its image is the image of the viewBox rectangle
    body = '<rect id="r" x="%r" y="%r" width="%r" height="%r"/>' % tuple(vb)
    partxt = (' preserveAspectRatio="%s"' % pt) if pt else ""
    if st == "parse-root":
        size = case["size"]
        wa = ha = None
        if size == "px":
            wa, ha = "%rpx" % e[2], "%r" % e[3]
        elif size == "units":
            u = case["unit"]
            f = {"in": ppi, "cm": ppi / 2.54, "mm": ppi / 25.4, "pt": 4.0 / 3.0, "pc": 16.0}[u]
            wa, ha = "%r%s" % (e[2] / f, u), "%r%s" % (e[3] / f, u)
            e[2], e[3] = float("%r" % (e[2] / f)) * f, float("%r" % (e[3] / f)) * f
        elif size == "percent":
            wa, ha = "50%", "25%"
            kwargs["width"], kwargs["height"] = e[2] * 2, e[3] * 4
        elif size == "absent":
            e[2], e[3] = vb2[2], vb2[3]  # the size defaults to the viewBox size
        elif size == "caller-both":
            kwargs["width"], kwargs["height"] = e[2], e[3]
        elif size == "caller-width-only":
            kwargs["width"] = e[2]
            e[3] = vb2[3]
        elif size == "caller-height-only":
            kwargs["height"] = e[3]
            e[2] = vb2[2]
        elif size == "width-attr-only":
            wa = "%r" % e[2]
            e[3] = vb2[3]
        attrs = "".join(' %s="%s"' % (n, v) for n, v in (("width", wa), ("height", ha)) if v is not None)
        doc = '<svg xmlns="http://www.w3.org/2000/svg"%s viewBox="%s"%s>%s</svg>' % (attrs, vbtxt, partxt, body)
        key = "parse-root/%s" % size
    else:
        ow, oh = case["outer"]
        if case["size"] == "px":
            wa, ha = "%r" % e[2], "%r" % e[3]
        else:
            wa, ha = "%r%%" % (e[2] / ow * 100.0), "%r%%" % (e[3] / oh * 100.0)
            e[2], e[3] = float("%r" % (e[2] / ow * 100.0)) * ow / 100.0, float("%r" % (e[3] / oh * 100.0)) * oh / 100.0
            rel_pct = 4e-12 * max(ow, oh) / 100.0 / min(e[2], e[3])
        op = case.get("outer_par")
        doc = '<svg xmlns="http://www.w3.org/2000/svg" width="%r" height="%r"%s><svg x="%r" y="%r" width="%s" height="%s" viewBox="%s"%s>%s</svg></svg>' % (
            ow, oh, (' preserveAspectRatio="%s"' % op) if op else "", e[0], e[1], wa, ha, vbtxt, partxt, body)
        key = "parse-nested/%s" % case["size"]
    try:
        svg = S.SVG.parse(io.StringIO(doc), **kwargs)
        rects = [s for s in svg.elements() if isinstance(s, S.Rect) and s.id == "r"]
    except Exception as ex:
        ctx.violation("%s/raises/%s" % (key, type(ex).__name__), "SVG.parse(%s, %s): %r" % (doc, kwargs, ex), monitor="through-parse")
        return
    ref = V.transform(e[0], e[1], e[2], e[3], vb2, par)
    if len(rects) != 1:
        ctx.violation("%s/shape-missing" % key, "SVG.parse(%s, %s): %d rects" % (doc, kwargs, len(rects)), monitor="through-parse")
        return
    bb = rects[0].bbox()
    p0 = m_apply(ref, (vb2[0], vb2[1]))
    p1 = m_apply(ref, (vb2[0] + vb2[2], vb2[1] + vb2[3]))
    exp = (min(p0[0], p1[0]), min(p0[1], p1[1]), max(p0[0], p1[0]), max(p0[1], p1[1]))
    mag = max(1.0, max(abs(v) for v in exp))
    metric = case.get("size") == "units" and case.get("unit") in ("cm", "mm")
    rel = 2e-6 if metric else 1e-9  # the library's cm/mm constants have 6 significant digits (pinned by its tests)
    rel = max(rel, rel_pct)  # a percentage passes through the same 12-decimal text
    if case.get("size") == "units":
        # a unit-bearing size passes through the library's 12-decimal length text once (Length(Length)): 5e-13 of the unit
        f_ = {"in": ppi, "cm": ppi / 2.54, "mm": ppi / 25.4, "pt": 4.0 / 3.0, "pc": 16.0}[case["unit"]]
        rel = max(rel, 4e-12 * f_ / min(e[2], e[3]))
    scl = max(ref[0], ref[3])
    tol = rel * (mag + scl * (abs(vb2[0]) + abs(vb2[1]) + vb2[2] + vb2[3])) + 4e-12 * (abs(vb2[0]) + abs(vb2[1]) + vb2[2] + vb2[3] + 1)
    dev = max(abs(a - b) for a, b in zip(bb, exp))
    if ctx.see("parse-geometry", dev / tol) > 1:
        ctx.violation("%s/geometry/%s" % (key, _axis_feature(e, vb2)), "SVG.parse(%s, %s): the rect covering the viewBox came out at %s, SVG 2 8.2 maps the viewBox to %s" % (doc, kwargs, bb, exp), monitor="through-parse")
        return
    if st == "parse-root":
        try:
            got = m_of(S.Matrix(svg.viewbox_transform))
        except Exception as ex:
            ctx.violation("%s/viewbox_transform-raises/%s" % (key, type(ex).__name__), "%s: %r" % (doc, ex), monitor="through-parse")
            return
        check_matrix(ctx, got, e, vb2, par, "SVG.parse(%s, %s).viewbox_transform" % (doc, kwargs), key, rel)
