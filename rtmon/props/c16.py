"""C16 - reverse() traces the same geometry backwards and is an involution."""
import math
from copy import copy

from .. import monitors
from ..gen import geometry as GG
from ..gen import transforms as GT
from ..num import m_apply

ID = "C16"
RULE = (
    "paths of 1-5 subpaths (open / closed, closing segments of zero and non-zero length, single-segment and move-only subpaths, "
    "subpaths that retrace themselves, subpaths without a move of their own: after a close, or a fragment without a leading move; "
    "all segment kinds) under the histories: reverse the whole path, reverse each subpath view, reverse twice, reverse / transform / "
    "reverse. The result is compared with the source subpath by subpath (order reversed), segment by segment (q(t) = p(1-t) at 5 "
    "parameters, so an arc's sweep is negated), for connectivity, closedness, the set of end points, bit-identity outside a "
    "reversed view, and restoration by the second reverse. Non-trivial = at least one drawn segment."
)
BUDGET = {"quick": 14000, "thorough": 600000}
TIME_CAP = {"quick": 240, "thorough": 1500}
ANCHORS = ["Path.reverse", "Path.as_subpaths", "Subpath.reverse", "Subpath._reverse_segments", "Subpath.index_to_path_index", "PathSegment.reverse",
           "CubicBezier.reverse", "Arc.reverse", "Path.__iadd__", "Path.extend", "Path._validate_connection", "Path._validate_subpath"]
REQUIRED_MONITORS = ["whole-reverse", "subpath-correspondence", "segment-reversal", "connectivity", "involution", "view-reverse", "outside-window", "reverse-transform-reverse"]

T5 = [0.0, 0.25, 0.5, 0.75, 1.0]


def strata_minimum(tier):
    f = 1 if tier == "quick" else 20
    return {"own-moves": 3000 * f, "retrace": 300 * f, "degenerate-subpaths": 500 * f, "moveless-after-close": 600 * f, "fragment": 300 * f}


def setup(S, ctx, tier):
    pass


def nontrivial(case):
    return any(sp["k"] not in ("M",) for sp in case["path"])


def gen_case(R, index, tier):
    k = R.random()
    if k < 0.55:
        st = "own-moves"
        specs = GG.path(R, nsub=R.randint(1, 5), maxseg=4, closed_prob=0.5)
    elif k < 0.63:
        st = "retrace"
        # a subpath that runs out and back over the same segments
        p0 = GG.pt(R)
        specs = [{"k": "M", "p": p0}]
        cur = p0
        out = []
        for _ in range(R.randint(1, 3)):
            sp, _ = GG.segment(R, R.choice(["L", "L", "Q", "C"]), start=cur)
            out.append(sp)
            cur = GG.seg_end(sp)
        specs += out
        for sp in reversed(out):
            if sp["k"] == "L":
                specs.append({"k": "L", "s": sp["e"], "e": sp["s"]})
            elif sp["k"] == "Q":
                specs.append({"k": "Q", "s": sp["e"], "c": sp["c"], "e": sp["s"]})
            else:
                specs.append({"k": "C", "s": sp["e"], "c1": sp["c2"], "c2": sp["c1"], "e": sp["s"]})
        if R.random() < 0.3:
            specs.append({"k": "Z", "s": list(p0), "e": list(p0)})
        if R.random() < 0.5:
            specs += GG.path(R, nsub=1, maxseg=3)
    elif k < 0.75:
        st = "degenerate-subpaths"
        specs = []
        for _ in range(R.randint(1, 4)):
            w = R.random()
            p = GG.pt(R)
            if w < 0.3:
                specs.append({"k": "M", "p": p})  # move-only
            elif w < 0.5:
                specs += [{"k": "M", "p": p}, {"k": "Z", "s": list(p), "e": list(p)}]
            elif w < 0.8:
                sp, _ = GG.segment(R, None, start=p)
                specs += [{"k": "M", "p": p}, sp]
            else:
                specs += GG.path(R, nsub=1, maxseg=3)
    elif k < 0.92:
        st = "moveless-after-close"
        specs = GG.path(R, nsub=R.randint(2, 4), maxseg=3, closed_prob=0.9, moveless=True)
        if not _has_moveless(specs):
            # force one: a closed subpath followed directly by a drawing segment
            home = specs[0]["p"]
            sp, _ = GG.segment(R, None, start=home)
            first_close = next((i for i, s in enumerate(specs) if s["k"] == "Z"), None)
            if first_close is None:
                end = GG.seg_end(specs[-1])
                specs.append({"k": "Z", "s": list(end), "e": list(home)})
                specs.append(sp)
            else:
                home = specs[first_close]["e"]
                sp, _ = GG.segment(R, None, start=home)
                rest = specs[first_close + 1:]
                specs = specs[:first_close + 1] + [sp] + (rest if rest and rest[0]["k"] == "M" else [])
    else:
        st = "fragment"
        specs = GG.path(R, nsub=R.randint(1, 3), maxseg=3)[1:]
        if not specs or specs[0]["k"] in ("M", "Z"):
            sp, _ = GG.segment(R, None)
            specs = [sp] + [s for s in specs if False]
    # an arc with a zero radius is the straight line between its end points (SVG F.6.2): it must be reversed like any other segment
    for sp in specs:
        if sp["k"] == "A" and "arc" in sp and R.random() < 0.12:
            a_ = list(sp["arc"])
            w = R.random()
            if w < 0.4:
                a_[2] = 0.0
            elif w < 0.8:
                a_[3] = 0.0
            else:
                a_[2] = a_[3] = 0.0
            sp["arc"] = a_
            sp["zero_radius"] = True
    return {"stratum": st, "path": specs, "which": R.randint(0, 4), "M": list(GT.affine(R)[1])}


def _has_moveless(specs):
    for a, b in zip(specs, specs[1:]):
        if a["k"] == "Z" and b["k"] not in ("M", "Z"):
            return True
    return False


def shrink_candidates(case):
    p = case["path"]
    for i in range(len(p) - 1, 0, -1):
        c = dict(case)
        c["path"] = p[:i]
        yield c


def _xy(p):
    return None if p is None else (p.x, p.y)


def split(S, segs):
    """subpaths as lists of (index, segment): a move starts one, a close ends one"""
    subs, cur = [], []
    for i, s in enumerate(segs):
        if isinstance(s, S.Move) and cur:
            subs.append(cur)
            cur = []
        cur.append((i, s))
        if isinstance(s, S.Close):
            subs.append(cur)
            cur = []
    if cur:
        subs.append(cur)
    return subs


def samples(S, seg):
    if isinstance(seg, S.Move) or seg.start is None or seg.end is None:
        return None
    return [(p.x, p.y) for p in (seg.point(t) for t in T5)]


def same_pts(a, b, tol):
    return all(math.hypot(p[0] - q[0], p[1] - q[1]) <= tol for p, q in zip(a, b))


def arc_slack(S, seg):
    """how far the stored end point of an arc lies off its own parametric form (up to 1e-8 of its size for half
    turns with scaled-up radii); a reversed arc re-derives its start parameter from that point"""
    if not isinstance(seg, S.Arc) or seg.sweep == 0 or seg.start is None or seg.end is None:
        return 0.0
    st = seg.get_start_t()
    e = seg.point_at_t(st + seg.sweep)
    b = seg.point_at_t(st)
    return 4 * max(math.hypot(e.x - seg.end.x, e.y - seg.end.y), math.hypot(b.x - seg.start.x, b.y - seg.start.y))


def snapshot(S, path):
    out = []
    for s in path:
        rec = [type(s).__name__, _xy(s.start), _xy(s.end)]
        for n in ("control", "control1", "control2", "center", "prx", "pry"):
            if hasattr(s, n):
                rec.append(_xy(getattr(s, n)))
        if hasattr(s, "sweep"):
            rec.append(s.sweep)
        out.append(rec)
    return out


def describe(path):
    try:
        return path.d()
    except Exception:
        return repr(path)


def compare_reversed(S, ctx, src_subs, res_subs, tol0, what, klass, monitor):
    """res_subs must be src_subs in reverse order, each traced backwards"""
    ctx.mon("subpath-correspondence")
    if len(res_subs) != len(src_subs):
        ctx.violation("subpath-count/%s" % klass, "%s: %d subpaths, the source has %d" % (what, len(res_subs), len(src_subs)), monitor=monitor)
        return False
    for j, rs in enumerate(res_subs):
        ss = src_subs[len(src_subs) - 1 - j]
        r_drawn = [s for _, s in rs if not isinstance(s, S.Move)]
        s_drawn = [s for _, s in ss if not isinstance(s, S.Move)]
        r_closed = bool(rs) and isinstance(rs[-1][1], S.Close)
        s_closed = bool(ss) and isinstance(ss[-1][1], S.Close)
        if r_closed != s_closed:
            ctx.violation("closedness-changed/%s" % klass, "%s: subpath %d is %s, its source was %s" % (what, j, "closed" if r_closed else "open", "closed" if s_closed else "open"), monitor=monitor)
            return False
        if len(r_drawn) != len(s_drawn):
            ctx.violation("segment-count/%s" % klass, "%s: subpath %d has %d drawn segments, its source %d" % (what, j, len(r_drawn), len(s_drawn)), monitor=monitor)
            return False
        ctx.mon("segment-reversal")
        tol = tol0 + max([0.0] + [arc_slack(S, s) for s in s_drawn])
        want = []
        for s in s_drawn:
            sm = samples(S, s)
            want.append((type(s).__name__ if not isinstance(s, S.Close) else "Close", None if sm is None else sm[::-1]))
        got = []
        for s in r_drawn:
            got.append((type(s).__name__ if not isinstance(s, S.Close) else "Close", samples(S, s)))
        if any(g[1] is None for g in got):
            ctx.violation("segment-without-points/%s" % klass, "%s: subpath %d contains a segment whose start or end is None" % (what, j), monitor=monitor)
            return False
        if s_closed:
            # a closed subpath may start at another of its points: compare as multisets; a closing segment and a
            # line are the same drawn geometry
            pool = list(want)
            for kind, sm in got:
                hit = None
                for idx, (k2, w) in enumerate(pool):
                    if w is not None and ({kind, k2} <= {"Close", "Line"} or kind == k2) and same_pts(sm, w, tol):
                        hit = idx
                        break
                if hit is None:
                    ctx.violation("segment-not-a-reversal/%s/%s" % (klass, kind), "%s: subpath %d segment %s is not the reversal of any segment of its source subpath" % (what, j, sm), monitor=monitor)
                    return False
                pool.pop(hit)
        else:
            for (kind, sm), (k2, w) in zip(got, reversed(want)):
                if kind != k2 or w is None or not same_pts(sm, w, tol):
                    ctx.violation("segment-not-a-reversal/%s/%s" % (klass, kind), "%s: subpath %d: %s %s is not the reversal of the source's %s %s" % (what, j, kind, sm, k2, w), monitor=monitor)
                    return False
    return True


def connectivity(S, ctx, path, what, klass, monitor, lo=0, hi=None):
    ctx.mon("connectivity")
    msg = monitors.check_path_links(S, path, lo, hi, move_starts=False)
    if msg:
        ctx.violation("disconnected/%s" % klass, "%s: %s" % (what, msg), monitor=monitor)
        return False
    for i, s in enumerate(path):
        if i < lo or (hi is not None and i >= hi):
            continue
        if s.end is None or (i > 0 and s.start is None):
            ctx.violation("none-point/%s" % klass, "%s: segment %d %r has a None point" % (what, i, s), monitor=monitor)
            return False
    return True


class _Keyed:
    """for subpaths without a move of their own every geometric clause fails through one mechanism (the algorithm
    anchors a subpath at its move): those violations are reported under one key per (class, phase); exceptions
    and anything in the other classes keep their own keys"""

    def __init__(self, ctx, klass):
        self._ctx = ctx
        self._klass = klass
        self.phase = "whole-path"

    def __getattr__(self, name):
        return getattr(self._ctx, name)

    def violation(self, key, detail, monitor=None, **data):
        head = key.split("/")[0]
        if key.endswith("/" + self._klass) or ("/%s/" % self._klass) in key:
            if self._klass in ("fragment", "moveless-after-close") and "raises" not in head:
                key = "reverse-of-moveless-subpath/%s/%s" % (self._klass, self.phase)
                detail = "[%s] %s" % (head, detail)
        return self._ctx.violation(key, detail, monitor=monitor, **data)


def run_case(S, case, ctx0):
    st = case["stratum"]
    kl = {"own-moves": "own-moves", "retrace": "own-moves", "degenerate-subpaths": "own-moves"}.get(st, st)
    ctx = _Keyed(ctx0, kl)
    return _run_case(S, case, ctx)


def _run_case(S, case, ctx):
    st = case["stratum"]
    klass = {"own-moves": "own-moves", "retrace": "own-moves", "degenerate-subpaths": "own-moves"}.get(st, st)
    src = GG.build_path(S, case["path"])
    if len(src) == 0:
        return
    d0 = describe(src)
    S_ = GG.magnitude(case["path"])
    tol = 1e-9 * S_
    src_subs = split(S, list(src))
    src_snap = snapshot(S, src)
    src_pts = set()
    for s in src:
        if not isinstance(s, S.Move):
            for p in (s.start, s.end):
                if p is not None:
                    src_pts.add((round(p.x, 6), round(p.y, 6)))

    # ---- whole path -----------------------------------------------------------------------------------------
    ctx.mon("whole-reverse")
    p = copy(src)
    try:
        p.reverse()
    except Exception as e:
        ctx.violation("reverse-raises/%s/%s" % (type(e).__name__, klass), "Path(%s).reverse(): %r" % (d0, e), monitor="whole-reverse")
        return
    what = "Path(%s).reverse() = %s" % (d0, describe(p))
    ok = connectivity(S, ctx, p, what, klass, "whole-reverse")
    ok = ok and compare_reversed(S, ctx, src_subs, split(S, list(p)), tol, what, klass, "whole-reverse")
    if ok:
        got_pts = set()
        for s in p:
            if not isinstance(s, S.Move):
                for q in (s.start, s.end):
                    if q is not None:
                        got_pts.add((round(q.x, 6), round(q.y, 6)))
        lost = [q for q in src_pts if not any(abs(q[0] - g[0]) <= tol + 1e-5 and abs(q[1] - g[1]) <= tol + 1e-5 for g in got_pts)]
        if lost:
            ctx.violation("point-lost/%s" % klass, "%s: the source point %s is not a point of the result" % (what, lost[0]), monitor="whole-reverse")
            ok = False
    if ok:
        ctx.mon("involution")
        try:
            p.reverse()
        except Exception as e:
            ctx.violation("reverse-raises/%s/%s" % (type(e).__name__, klass), "second reverse of Path(%s): %r" % (d0, e), monitor="involution")
            return
        snap2 = snapshot(S, p)
        if not _snap_equal(snap2, src_snap, 64 * 2.2e-16 * S_):
            ctx.violation("not-an-involution/%s" % klass, "Path(%s) reversed twice = %s" % (d0, describe(p)), monitor="involution")
            ok = False
    if ok:
        # reverse, transform in place, reverse  ==  transform
        ctx.mon("reverse-transform-reverse")
        M = tuple(case["M"])
        q = copy(src)
        q.reverse()
        q *= S.Matrix(*M)
        q.reify()
        q.reverse()
        ref = abs(copy(src) * S.Matrix(*M))
        if len(q) != len(ref) or not all(
            type(a) is type(b) and (isinstance(a, S.Move) or samples(S, a) is None or same_pts(samples(S, a), samples(S, b), 1e-7 * max(S_, abs(M[4]), abs(M[5])) * (1 + abs(M[0]) + abs(M[1]) + abs(M[2]) + abs(M[3]))))
            and _close(_xy(a.end), _xy(b.end), 1e-7 * max(S_, abs(M[4]), abs(M[5])) * (1 + abs(M[0]) + abs(M[1]) + abs(M[2]) + abs(M[3])))
            for a, b in zip(q, ref)
        ):
            ctx.violation("reverse-transform-reverse/%s" % klass, "Path(%s): reverse(); *= Matrix%s; reify(); reverse() = %s, the transformed path is %s" % (d0, M, describe(q), describe(ref)), monitor="reverse-transform-reverse")

    # ---- one subpath view -----------------------------------------------------------------------------------
    ctx.phase = "subpath-view"
    ctx.mon("view-reverse")
    v = copy(src)
    views = list(v.as_subpaths())
    if not views:
        return
    j = case["which"] % len(views)
    view = views[j]
    lo, hi = view._start, view._end
    before = snapshot(S, v)
    own_move = isinstance(v[lo], S.Move)
    followed_by_moveless = hi + 1 < len(v) and not isinstance(v[hi + 1], S.Move)
    vk = klass if (klass != "own-moves") else "own-moves"
    if klass in ("moveless-after-close", "fragment"):
        vk = klass if (not own_move or followed_by_moveless) else "own-moves"
    ctx._klass = vk
    try:
        view.reverse()
    except Exception as e:
        ctx.violation("view-reverse-raises/%s/%s" % (type(e).__name__, vk), "subpath %d of Path(%s).reverse(): %r" % (j, d0, e), monitor="view-reverse")
        return
    what = "subpath %d (segments %d..%d) of Path(%s) reversed -> %s" % (j, lo, hi, d0, describe(v))
    after = snapshot(S, v)
    ctx.mon("outside-window")
    for i, (a, b) in enumerate(zip(before, after)):
        if lo <= i <= hi:
            continue
        a2, b2 = list(a), list(b)
        if i == hi + 1 and a[0] == "Move":
            a2[1] = b2[1] = None  # the start of a following move is a link, not geometry
        if a2 != b2:
            ctx.violation("view-reverse-changed-outside/%s" % vk, "%s: segment %d outside the view changed from %s to %s" % (what, i, a, b), monitor="outside-window")
            return
    if len(after) != len(before):
        ctx.violation("view-reverse-changed-length/%s" % vk, "%s: %d segments, had %d" % (what, len(after), len(before)), monitor="outside-window")
        return
    win_src = [[(i, s) for i, s in enumerate(src) if lo <= i <= hi]]
    win_res = [[(i, s) for i, s in enumerate(v) if lo <= i <= hi]]
    if not compare_reversed(S, ctx, win_src, win_res, tol, what, vk, "view-reverse"):
        return
    if not connectivity(S, ctx, v, what, vk, "view-reverse", max(0, lo), min(len(v), hi + 2)):
        return
    # no two segments may share a point object afterwards (a later in-place transform would map it twice) ...
    ctx.mon("view-then-transform")
    seen = {}
    for i, seg in enumerate(v):
        for n in ("start", "end", "control", "control1", "control2", "center", "prx", "pry"):
            q = getattr(seg, n, None)
            if q is None:
                continue
            if id(q) in seen and seen[id(q)] != (i, n):
                ctx.violation("view-reverse-shares-point-object/%s" % vk, "%s: segment %d .%s and segment %d .%s are the same Point object" % (what, seen[id(q)][0], seen[id(q)][1], i, n), monitor="view-then-transform")
                return
            seen[id(q)] = (i, n)
    # ... and the history reverse view -> transform in place -> reify gives the matrix image of the reversed path
    M = tuple(case["M"])
    pre = [samples(S, seg) if not isinstance(seg, S.Move) else [(seg.end.x, seg.end.y)] for seg in v]
    v *= S.Matrix(*M)
    v.reify()
    tolm = 1e-7 * max(S_, abs(M[4]), abs(M[5])) * (1 + abs(M[0]) + abs(M[1]) + abs(M[2]) + abs(M[3]))
    for i, seg in enumerate(v):
        now = samples(S, seg) if not isinstance(seg, S.Move) else [(seg.end.x, seg.end.y)]
        if pre[i] is None or now is None:
            continue
        exp = [m_apply(M, q) for q in pre[i]]
        if not same_pts(now, exp, tolm + arc_slack(S, seg) * 4):
            ctx.violation("view-reverse-then-transform/%s" % vk, "%s, then *= Matrix%s; reify(): segment %d is %s, the matrix image of the reversed path is %s" % (what, M, i, now, exp), monitor="view-then-transform")
            return


def _close(a, b, tol):
    if a is None or b is None:
        return a is b
    return math.hypot(a[0] - b[0], a[1] - b[1]) <= tol


def _snap_equal(a, b, tol):
    if len(a) != len(b):
        return False
    for i, (x, y) in enumerate(zip(a, b)):
        if x[0] != y[0] or len(x) != len(y):
            return False
        for j, (u, w) in enumerate(zip(x[1:], y[1:])):
            if i == 0 and j == 0:
                continue  # the start of the first segment is not geometry
            if isinstance(u, tuple) and isinstance(w, tuple):
                if not _close(u, w, tol):
                    return False
            elif isinstance(u, float) and isinstance(w, float):
                if abs(u - w) > 1e-12:
                    return False
            elif u != w:
                return False
    return True
