"""C17 - appending path data continues the parse: Path(a) + b equals Path(a b)."""
import math
from copy import copy

from .. import alias, monitors
from ..gen import pathdata as G
from ..gen.numbers import coord
from ..num import b_exact, b_fmt12, dist
from ..ref import pathref
from . import c01

ID = "C17"
RULE = (
    "C01 programs split at command boundaries into 2-5 pieces (the first command of the appended piece enumerates all 20 "
    "letters); every append form (Path+str, +=, parse, segment+str, chained +=) is executed on the real objects and compared "
    "segment-wise (kinds, coordinates, relative/smooth flags) with Path(whole text) and with the reference interpreter; "
    "concatenation with paths and shapes that start with a move is compared pointwise. Non-trivial = the appended piece has "
    "at least one command that depends on the state left by the first piece (anything but an absolute move first)."
)
BUDGET = {"quick": 16000, "thorough": 500000}
TIME_CAP = {"quick": 240, "thorough": 1500}
ANCHORS = ["Path.__iadd__", "Path.__add__", "Path.__radd__", "Path.parse", "Path.current_point", "Path.z_point", "Path.smooth_point",
           "PathSegment.__iadd__", "Path.append", "Path.extend", "Path._validate_subpath", "Path._validate_connection", "Path.__copy__"]
REQUIRED_MONITORS = ["append-vs-whole", "append-vs-reference", "left-operand-unchanged", "concat-geometry", "path-links"]


def strata_minimum(tier):
    f = 1 if tier == "quick" else 20
    return {"two-split": 2000 * f, "k-split": 500 * f, "segment-plus": 300 * f, "curve-segment-plus": 300 * f, "concat-path": 300 * f, "concat-shape": 200 * f, "radd": 100 * f}


def setup(S, ctx, tier):
    monitors.install_path_invariants(S)


def nontrivial(case):
    if case["stratum"] in ("concat-path", "concat-shape", "radd"):
        return True
    return not (len(case["pieces"]) > 1 and case["pieces"][1] and case["pieces"][1][0]["c"] == "M")


def gen_case(R, index, tier):
    k = R.random()
    if k < 0.62:
        st = "two-split"
    elif k < 0.78:
        st = "k-split"
    elif k < 0.82:
        st = "segment-plus"
    elif k < 0.86:
        st = "curve-segment-plus"
    elif k < 0.93:
        st = "concat-path"
    elif k < 0.98:
        st = "concat-shape"
    else:
        st = "radd"
    if st in ("two-split", "k-split", "segment-plus"):
        first = G.LETTERS[index % 20]
        if st == "segment-plus":
            a = [G.command(R, R.choice("Mm"), maxrep=1)]
            a[0]["g"] = a[0]["g"][:1]
        else:
            a = G.program(R, maxcmd=6, letters=R.choice([G.LETTERS, "QqTtCcSsZzLlAa"]))
        b = [G.command(R, first)] + [G.command(R, R.choice(G.LETTERS)) for _ in range(R.randint(0, 5))]
        prog = a + b
        if st == "k-split":
            cuts = sorted(set([len(a)] + [R.randint(1, len(prog) - 1) for _ in range(R.randint(1, 3))]))
        else:
            cuts = [len(a)]
        pieces = [prog[i:j] for i, j in zip([0] + cuts, cuts + [len(prog)])]
        texts = [G.spell_program(R, p) for p in pieces]
        return {"stratum": st, "pieces": pieces, "texts": texts}
    if st == "curve-segment-plus":
        # a lone drawing segment (with its start point) + b; b has no close: without a move of its own there is
        # no subpath start the statement could pin
        first = "TtSsQqCcLlHhVvAa"[index % 16]
        a = [G.command(R, "M", maxrep=1), G.command(R, R.choice("QqCcTtSsLlAa"), zprob=0, maxrep=1)]
        a[0]["g"] = a[0]["g"][:1]
        b = [G.command(R, first, zprob=0)] + [G.command(R, R.choice("TtSsQqCcLlHhVvAaMm"), zprob=0) for _ in range(R.randint(0, 4))]
        return {"stratum": st, "pieces": [a, b], "texts": [G.spell_program(R, a), G.spell_program(R, b)]}
    if st == "radd":
        a = G.program(R, maxcmd=4)
        b = [G.command(R, R.choice("Mm"))] + [G.command(R, R.choice(G.LETTERS)) for _ in range(R.randint(0, 4))]
        return {"stratum": st, "pieces": [a, b], "texts": [G.spell_program(R, a), G.spell_program(R, b)]}
    a = G.program(R, maxcmd=6)
    if st == "concat-path":
        b = [G.command(R, "M")] + [G.command(R, R.choice(G.LETTERS)) for _ in range(R.randint(0, 5))]
        return {"stratum": st, "pieces": [a, b], "texts": [G.spell_program(R, a), G.spell_program(R, b)]}
    kind = R.choice(["rect", "rrect", "circle", "ellipse", "line", "polyline", "polygon"])
    pos = lambda: round(R.uniform(-50, 50), R.randint(0, 3))
    sz = lambda: round(R.uniform(0.5, 40), R.randint(0, 3))
    if kind == "rect":
        spec = {"kind": "rect", "x": pos(), "y": pos(), "width": sz(), "height": sz()}
    elif kind == "rrect":
        spec = {"kind": "rect", "x": pos(), "y": pos(), "width": sz() + 10, "height": sz() + 10, "rx": round(R.uniform(0.5, 5), 2), "ry": round(R.uniform(0.5, 5), 2)}
    elif kind == "circle":
        spec = {"kind": "circle", "cx": pos(), "cy": pos(), "r": sz()}
    elif kind == "ellipse":
        spec = {"kind": "ellipse", "cx": pos(), "cy": pos(), "rx": sz(), "ry": sz()}
    elif kind == "line":
        spec = {"kind": "line", "x1": pos(), "y1": pos(), "x2": pos(), "y2": pos()}
    else:
        spec = {"kind": kind, "points": [[pos(), pos()] for _ in range(R.randint(2, 6))]}
    if R.random() < 0.5:
        # shear only on straight-edged shapes: how arcs behave under non-conformal maps is C02/C06's question
        tr = ["translate(5,-3)", "rotate(30)", "scale(2,-1)", "rotate(90) translate(10,0)"]
        if kind not in ("rrect", "circle", "ellipse"):
            tr.append("matrix(1,0.5,-0.25,2,3,4)")
        spec["transform"] = R.choice(tr)
    return {"stratum": st, "pieces": [a], "texts": [G.spell_program(R, a)], "shape": spec}


def shrink_candidates(case):
    if case["stratum"] not in ("two-split", "k-split", "segment-plus"):
        return
    pieces = case["pieces"]
    for pi, piece in enumerate(pieces):
        lo = 1 if pi == 0 else 0
        for i in range(len(piece) - 1, lo - 1, -1):
            if len(piece) == 1:
                continue
            p2 = [list(p) for p in pieces]
            del p2[pi][i]
            yield {"stratum": case["stratum"], "pieces": p2, "texts": [G.spell_program(None, p, plain=True) for p in p2]}
    plain = [G.spell_program(None, p, plain=True) for p in pieces]
    if plain != case["texts"]:
        yield {"stratum": case["stratum"], "pieces": pieces, "texts": plain}


def make_shape(S, spec):
    kw = {k: v for k, v in spec.items() if k not in ("kind", "points")}
    k = spec["kind"]
    if k == "rect":
        return S.Rect(**kw)
    if k == "circle":
        return S.Circle(**kw)
    if k == "ellipse":
        return S.Ellipse(**kw)
    if k == "line":
        return S.SimpleLine(**kw)
    pts = [tuple(p) for p in spec["points"]]
    if k == "polyline":
        return S.Polyline(*pts, **kw)
    return S.Polygon(*pts, **kw)


def _xy(p):
    return None if p is None else (p.x, p.y)


def _fields(seg):
    out = [type(seg).__name__, _xy(seg.start), _xy(seg.end), bool(seg.relative)]
    for n in ("control", "control1", "control2", "center", "prx", "pry"):
        if hasattr(seg, n):
            out.append(_xy(getattr(seg, n)))
    if hasattr(seg, "sweep"):
        out.append(seg.sweep)
    if hasattr(seg, "control") or hasattr(seg, "control1"):
        out.append(bool(seg.smooth))
    return out


def same_path(ctx, got, want, S_):
    """segment-wise identity: kinds, all defining points, relative/smooth flags; returns a description or None"""
    if len(got) != len(want):
        return "count", "%d segments instead of %d" % (len(got), len(want))
    b = b_exact(S_)
    for i, (g, w) in enumerate(zip(got, want)):
        fg, fw = _fields(g), _fields(w)
        if fg[0] != fw[0]:
            return "kind", "segment %d is %s instead of %s" % (i, fg[0], fw[0])
        for j, (x, y) in enumerate(zip(fg[1:], fw[1:])):
            if isinstance(x, tuple) and isinstance(y, tuple):
                if i == 0 and j == 0:
                    continue
                try:
                    if ctx.see("append-coordinates", dist(x, y) / b) > 1:
                        return "coordinates", "segment %d (%s): %s instead of %s" % (i, fg[0], x, y)
                except TypeError:
                    return "coordinates", "segment %d (%s): %s instead of %s" % (i, fg[0], x, y)
            elif isinstance(x, float) and isinstance(y, float):
                if abs(x - y) > 1e-9:
                    return "sweep", "segment %d sweep %r instead of %r" % (i, x, y)
            elif x != y:
                if i == 0 and j == 0:
                    continue
                what = "flags" if isinstance(x, bool) or isinstance(y, bool) else "coordinates"
                return what, "segment %d (%s): field %d is %r instead of %r" % (i, fg[0], j, x, y)
    return None


def _snap(p):
    return [_fields(s) for s in p]


def first_letter(case):
    try:
        return case["pieces"][1][0]["c"]
    except Exception:
        return "?"


def run_case(S, case, ctx):
    st = case["stratum"]
    if st in ("two-split", "k-split", "segment-plus"):
        return _run_split(S, case, ctx)
    if st == "curve-segment-plus":
        return _run_curve_segment(S, case, ctx)
    if st == "radd":
        return _run_radd(S, case, ctx)
    return _run_concat(S, case, ctx)


def _run_split(S, case, ctx):
    texts, pieces = case["texts"], case["pieces"]
    prog = [c for p in pieces for c in p]
    whole_text = " ".join(texts)
    exp = pathref.interpret(prog)
    S_ = max([e["S"] for e in exp] + [1e-3])
    try:
        whole = S.Path(whole_text)
    except Exception as e:
        ctx.undecided("Path(whole) raised %s (C01's business)" % type(e).__name__)
        return
    a, b = texts[0], " ".join(texts[1:])
    L = first_letter(case)
    forms = []

    def add(name, f):
        try:
            forms.append((name, f()))
        except Exception as e:
            ctx.violation("append-raises/%s/%s" % (name, type(e).__name__), "%s with a=%r b=%r: %r" % (name, a, b, e), monitor="append-vs-whole")

    pa = S.Path(a)
    snap_a = _snap(pa)
    add("Path+str", lambda: pa + b)
    ctx.mon("left-operand-unchanged")
    if _snap(pa) != snap_a:
        ctx.violation("left-operand-modified/Path+str", "Path(%r) + %r changed the left operand" % (a, b), monitor="left-operand-unchanged")
    elif forms:
        sh = alias.shared(S, pa, forms[-1][1])
        if sh:
            ctx.violation("left-operand-aliased/Path+str", "Path(a) + b shares %s with Path(a)" % (sh[:3],), monitor="left-operand-unchanged")

    def iadd():
        p = S.Path(a)
        p += b
        return p

    def parse():
        p = S.Path(a)
        p.parse(b)
        return p

    def chained():
        p = S.Path(texts[0])
        for t in texts[1:]:
            p += t
        return p

    add("Path+=str", iadd)
    add("Path.parse", parse)
    if len(texts) > 2:
        add("chained+=", chained)
    if len(pa) == 1:
        seg = S.Path(a)[0]
        add("segment+str", lambda: seg + b)
    for name, got in forms:
        ctx.mon("append-vs-whole")
        if not isinstance(got, S.Path):
            ctx.violation("append-result-type/%s" % name, "%s gave %r" % (name, type(got)), monitor="append-vs-whole")
            continue
        bad = same_path(ctx, got, whole, S_)
        if bad:
            ctx.violation("append-differs/%s/%s/b-starts-%s" % (name, bad[0], L), "%s: a=%r b=%r: %s (expected Path(a b) = %s)" % (name, a, b, bad[1], whole.d()), monitor="append-vs-whole")
            continue
        ctx.mon("append-vs-reference")
        c01.compare_segments(S, ctx, got, exp, "%s(a=%r, b=%r)" % (name, a, b), monitor="append-vs-reference")
        c01.check_connectivity(S, ctx, got, name)


def _run_curve_segment(S, case, ctx):
    a, b = case["texts"]
    whole = S.Path(a + " " + b)
    pa = S.Path(a)
    seg = copy(pa[1])
    snap = _fields(seg)
    ctx.mon("append-vs-whole")
    try:
        got = seg + b
    except Exception as e:
        ctx.violation("append-raises/curve-segment+str/%s" % type(e).__name__, "%r + %r: %r" % (seg, b, e), monitor="append-vs-whole")
        return
    if _fields(seg) != snap:
        ctx.violation("left-operand-modified/segment+str", "%r + %r changed the segment" % (seg, b), monitor="left-operand-unchanged")
    if not isinstance(got, S.Path):
        ctx.violation("append-result-type/curve-segment+str", "gave %r" % type(got), monitor="append-vs-whole")
        return
    want = list(whole)[1:]
    S_ = max([1e-3] + [abs(v) for s_ in whole for p in s_ if p is not None for v in p])
    bad = same_path(ctx, list(got), want, S_)
    if bad:
        ctx.violation("append-differs/curve-segment+str/%s/%s-then-%s" % (bad[0], type(seg).__name__, first_letter(case)),
                      "%r + %r: %s (expected the segments of Path(%r) after its move: %s)" % (seg, b, bad[1], a + " " + b, whole.d()), monitor="append-vs-whole")


def _run_radd(S, case, ctx):
    a, b = case["texts"]
    ctx.mon("concat-geometry")
    pb = S.Path(b)
    snap = _snap(pb)
    try:
        got = a + pb  # str + Path
    except Exception as e:
        ctx.violation("append-raises/str+Path/%s" % type(e).__name__, "%r + Path(%r): %r" % (a, b, e), monitor="concat-geometry")
        return
    if _snap(pb) != snap:
        ctx.violation("right-operand-modified/str+Path", "%r + Path(%r) changed the path" % (a, b), monitor="left-operand-unchanged")
    pa = S.Path(a)
    _geometry(S, ctx, got, list(pa) + list(pb), len(pa), "str+Path", "a=%r b=%r" % (a, b), 1e-3)


def _geometry(S, ctx, got, want, split, name, what, S_, fmt=False):
    ctx.mon("concat-geometry")
    if len(got) != len(want):
        ctx.violation("concat-differs/%s/count" % name, "%s %s: %d segments, expected %d" % (name, what, len(got), len(want)), monitor="concat-geometry")
        return
    for i, (g, w) in enumerate(zip(got, want)):
        if type(g) is not type(w):
            ctx.violation("concat-differs/%s/kind" % name, "%s %s: segment %d is %s, expected %s" % (name, what, i, type(g).__name__, type(w).__name__), monitor="concat-geometry")
            return
        if isinstance(g, S.Move):
            pts = [(_xy(g.end), _xy(w.end))]
        else:
            if w.start is None:
                continue
            pts = [(tuple(g.point(t)), tuple(w.point(t))) for t in (0.0, 0.3, 0.5, 0.8, 1.0)]
        mg = max([S_] + [abs(v) for p, q in pts for v in p + q])
        bound = (b_fmt12(mg, 2) + (1e-6 * mg if isinstance(g, S.Arc) else 0)) if fmt else b_exact(mg)
        for p, q in pts:
            if ctx.see("concat-points" + ("-fmt12" if fmt else ""), dist(p, q) / bound) > 1:
                side = "left" if i < split else "right"
                ctx.violation("concat-differs/%s/%s-geometry" % (name, side), "%s %s: segment %d (%s) point %s, expected %s" % (name, what, i, type(g).__name__, p, q), monitor="concat-geometry")
                return


def _run_concat(S, case, ctx):
    a = case["texts"][0]
    pa = S.Path(a)
    snap_a = _snap(pa)
    if case["stratum"] == "concat-path":
        b = case["texts"][1]
        pb = S.Path(b)
        snap_b = _snap(pb)
        for name, f in (("Path+Path", lambda: pa + pb), ("Path+=Path", lambda: _iadd(S.Path(a), pb)), ("Path+Subpath", lambda: pa + pb.subpath(0) if pb.count_subpaths() == 1 else None)):
            try:
                got = f()
            except Exception as e:
                ctx.violation("append-raises/%s/%s" % (name, type(e).__name__), "%s a=%r b=%r: %r" % (name, a, b, e), monitor="concat-geometry")
                continue
            if got is None:
                continue
            _geometry(S, ctx, got, list(S.Path(a)) + list(S.Path(b)), len(pa), name, "a=%r b=%r" % (a, b), 1e-3)
            ctx.mon("left-operand-unchanged")
            if _snap(pa) != snap_a or _snap(pb) != snap_b:
                ctx.violation("operand-modified/%s" % name, "%s changed an operand (a=%r b=%r)" % (name, a, b), monitor="left-operand-unchanged")
                return
            sh = alias.shared(S, got, pb) + (alias.shared(S, got, pa) if name != "Path+=Path" else [])
            if sh:
                ctx.violation("operand-aliased/%s" % name, "%s result shares %s with an operand" % (name, sh[:3]), monitor="left-operand-unchanged")
                return
        return
    spec = case["shape"]
    shape = make_shape(S, spec)
    want_b = list(abs(S.Path(shape)))
    for name, f in (("Path+Shape", lambda: pa + shape), ("Path+=Shape", lambda: _iadd(S.Path(a), shape))):
        try:
            got = f()
        except Exception as e:
            ctx.violation("append-raises/%s/%s" % (name, type(e).__name__), "%s a=%r shape=%r: %r" % (name, a, spec, e), monitor="concat-geometry")
            continue
        _geometry(S, ctx, got, list(S.Path(a)) + want_b, len(pa), name, "a=%r shape=%r" % (a, spec), 1e-3, fmt=True)
    if _snap(pa) != snap_a:
        ctx.violation("operand-modified/Path+Shape", "Path + Shape changed the path operand", monitor="left-operand-unchanged")


def _iadd(p, other):
    p += other
    return p
