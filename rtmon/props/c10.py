"""C10 - document parsing never aborts on a bad element; elements outside the offending subtree are unaffected."""
import copy
import io
import math

from .. import docmon as DM
from ..gen import documents as GD
from ..trace import StepCounter, StepLimit
from . import c09

ID = "C10"
RULE = (
    "C03 documents with presentation attributes, in which 1-3 attribute values of graphics, container and use elements are replaced "
    "by malformed text from per-kind pools (path data: C09's token faults, stray characters, missing current point, garbage; "
    "transforms: missing / extra / non-numeric arguments, unknown functions, unbalanced parentheses; colours: bad hex lengths, "
    "fractional and short rgb(), unknown keywords, url(); lengths: letters, unknown units, empty, negative sizes, overflow; point "
    "lists: odd, garbled; viewBox: letters, three numbers, zero / negative size; preserveAspectRatio, stroke-width, opacity "
    "garbage), and use references are retargeted (missing id, empty, self, ancestor, mutual cycle, chain). Default error mode. "
    "Oracle: SVG.parse returns without raising, within a step bound; every shape of the parse of the document with the offending "
    "elements removed appears in the faulted parse, in order, with identical points, fill, stroke, stroke width and id; shapes "
    "that appear only in the faulted parse must belong to an offending element's subtree or expansion. Non-trivial = at least one "
    "shape outside the offending subtrees."
)
BUDGET = {"quick": 12000, "thorough": 400000}
TIME_CAP = {"quick": 240, "thorough": 1700}
ANCHORS = ["SVG.parse", "SVG._use_structure_parse", "Matrix.parse", "Color.parse", "Length.__init__", "Viewbox.set_viewbox", "Use.property_by_values",
           "Group.property_by_values", "Transformable.property_by_values", "GraphicObject.property_by_values", "_Polyshape.property_by_values", "Path.parse"]
REQUIRED_MONITORS = ["no-exception", "siblings-unaffected", "no-foreign-shapes", "returns-tree", "steps", "offending-path-as-alone"]

KINDS = ["d", "transform", "colour", "length", "points", "viewbox", "par", "number", "href", "cycle", "misc"]

BAD = {
    "transform": ["translate(", "translate()", "translate(1", "scale(a)", "rotate(1 2)", "rotate(1,2,3,4)", "matrix(1 2 3)", "matrix(1,2,3,4,5)", "matrix()", "skewX()",
                  "foo(1)", ")(", "translate(1,2))", "scale(,)", "rotate(30deg,)", "translate(1px, 1in)", "translate(10%)", "scale(1e400)", "rotate(NaN)",
                  "matrix(1 0 0 1 0 0) garbage", "", " ", "translate(1;2)", "rotate(90, 1)", "skewX(90)", "translate", "scale(2", "matrix(a b c d e f)", "rotate(1turn 2 3",
                  "translateX()", "scaleY(q)", "skewY(1,2)", "matrix(1 0 0 1 0)", "((", "translate(1)(2)", "rotate()", "scale()", "skew()", "translate(1e, 2)"],
    "colour": ["#12", "#12345", "#gggggg", "rgb(1.5,2,3)", "rgb(1,2)", "rgb(a,b,c)", "rgb(300,0,0", "rgba(1,2,3)", "hsl(120)", "hsl(a,b%,c%)", "notacolor", "url(#x)", "url(#",
               "", "#", "rgb()", "rgb(10%,20,30%)", "inherit", "rgb(1e400,0,0)", "0x123456", "rgb(1,2,3,4,5)", "hsla(1,2%,3%)", "rgb(,,)", "#1234567", "rgb(-1,-2,-3)", "rgb(1 2 3)",
               "hsl(1turn, 5, 6)", "rgba(1,2,3,x)", "#+1+2+3", "rgb(50%,50%)", "transparent", "rgb(1.5%,2.5%,3.5%)",
               "rgb(1e999%,0%,0%)", "rgb(0%,-1e999%,0%)", "hsl(1e999, 50%, 50%)", "rgba(1,2,3,1e999)", "hsl(10, 1e999%, 50%)", "rgba(10%,20%,30%,1e999)"],
    "length": ["abc", "12qq", "", "1e", "--1", "1..2", "1,2", "10 20", "-5", "1e400", "NaN", "inf", "12 px", "%", "px", "1e-400", "0x10", "１２", "+", ".", "1e+", "5%%", "calc(1px)", "-1e400", "auto"],
    "points": ["1", "1,2,3", "a,b", "1,2 3", "1,,2", "", "1 2 3 4 5", "1e,2", "1,2,c,4", ",", "1,2;3,4", "1e400,1 2,3", "NaN,NaN 1,1", "1-2-3", "..", "1,2 3,4 z"],
    "viewbox": ["a b c d", "0 0 10", "0 0 0 0", "0 0 -10 10", "0,0,10", "", "0 0 10 10 10", "0 0 1e400 1", "0 0 10 0", "0", "0 0 10 x", "1e-400 0 1e-400 1", ", , ,", "0 0 NaN 10"],
    "par": ["garbage", "xMidYMid foo", "", "none none", "slice", "xmidymid", "meet xMidYMid", "xMinYMin slice extra", " "],
    "number": ["abc", "-1", "", "1e400", "10%", "NaN", "1,5", "..", "2 3"],
    "href": ["#nope", "", "#", "nope", "##", "#e999999", "url(#e1)", " #e2"],
    "style": ["fill:", ":red", ";;;", "fill:red:blue", "fill:rgb(1,2", "garbage", "stroke-width:abc", "transform:rotate(", "fill:#12;stroke:#gg", "stroke-width:1e400", "fill-opacity:1e400;fill:red",
              "display:;fill:red", "fill:url(#nothing)", "color:;fill:currentColor", "stroke:rgb(1,2,3,4,5);stroke-width:-1", "x:abc;width:abc", "fill : red ; ; stroke"],
    "display": ["", "nope", "inline none", " none", "NONE "],
    "class": ["", " ", "a  b", ".", "#", "a\tb"],
    "vector-effect": ["", "non-scaling-stroke garbage", "none", "1"],
    "font-size": ["abc", "", "-1", "1e400", "12 px"],
    "clip-path": ["url(#nothing)", "url(", "", "none", "#e2"],
}
GEOM = {"rect": ["x", "y", "width", "height", "rx", "ry"], "circle": ["cx", "cy", "r"], "ellipse": ["cx", "cy", "rx", "ry"], "line": ["x1", "y1", "x2", "y2"],
        "svg": ["x", "y", "width", "height"], "use": ["x", "y", "width", "height"], "text": ["x", "y", "dx", "dy", "font-size"], "tspan": ["x", "y", "dx"],
        "image": ["x", "y", "width", "height"]}
STEP_LIMIT = 3000000


def strata_minimum(tier):
    f = 1 if tier == "quick" else 30
    return {k: 600 * f for k in KINDS}


def nontrivial(case):
    return case.get("outside", 1) >= 1


def _xml_ok(t):
    return all(c in "\t\n\r" or (" " <= c and c not in "￾￿" and not ("\ud800" <= c <= "\udfff")) for c in t)


# faulty path data chosen for the parser state it is in when the error is met (pending inline close, pending smooth control, open arc flags,
# half-read pair): a later path in the same document must not see any of it
STATEFUL_D = ["M 0 0 L 10 z", "M0,0 C 1,2 3,4 z 5", "M 1 1 L 5 5 L", "M1,1 Q", "M0 0 A 1 1 0 0 z", "M2,2 L3,3 z L", "M 1 1 S", "M0,0 T 1", "M 3 3 C z", "M0,0 L1,1 z M5,5 L",
              "M 0 0 Q 1 1 z 4", "M1,2 A 5 5 0 1", "M1,2 H", "M 0,0 L 1,1 Z 7 7", "M0 0 S 1 1 2 2 S 3", "M 4 4 a 1 1 0 0 1 z 9"]


def bad_path_data(R):
    if R.random() < 0.3:
        return R.choice(STATEFUL_D)
    for _ in range(20):
        c = c09.gen_case(R, 0, "quick")
        if "text" in c and _xml_ok(c["text"]) and len(c["text"]) < 400:
            return c["text"]
    return "M 1 2 L"


OTHER = ["text", "text", "tspan-in-text", "image", "foo", "title", "desc", "clipPath", "pattern", "a"]


def add_other_elements(R, doc):
    """elements outside C03's vocabulary (text, image, unknown, descriptive, clipPath, pattern): hosts for faults; they render no shape"""
    hosts = [n for n in GD.walk(doc) if n["tag"] in ("svg", "g")]
    k = 0
    for _ in range(R.randint(0, 3)):
        h = R.choice(hosts)
        kind = R.choice(OTHER)
        k += 1
        n = {"tag": kind, "id": "o%d" % k, "geom": {}, "children": [], "attrs": {}}
        if kind in ("text", "tspan-in-text"):
            n["tag"] = "text"
            n["geom"] = {"x": [float(R.randint(-20, 20)), ""], "y": [float(R.randint(-20, 20)), ""]}
            n["text"] = R.choice(["hello", "", "a b"])
            if R.random() < 0.5:
                n["attrs"]["font-size"] = R.choice(["12", "10px", "1.5em"])
            if kind == "tspan-in-text":
                k += 1
                n["children"].append({"tag": "tspan", "id": "o%d" % k, "geom": {"x": [1.0, ""]}, "children": [], "attrs": {}, "text": "t"})
        elif kind == "image":
            n["geom"] = {"x": [1.0, ""], "y": [2.0, ""], "width": [10.0, ""], "height": [12.0, ""]}
            n["attrs"]["href"] = "nothing.png"
        elif kind in ("title", "desc"):
            n["text"] = "words"
        elif kind in ("clipPath", "pattern", "a"):
            k += 1
            n["children"].append({"tag": "rect", "id": "o%d" % k, "geom": {"width": [5.0, ""], "height": [4.0, ""]}, "children": [], "attrs": {}})
        if R.random() < 0.3:
            n["tf"], n["tftext"] = None, "translate(3, 4)"
        h["children"].insert(R.randint(0, len(h["children"])), n)


def gen_case(R, index, tier):
    kind = KINDS[index % len(KINDS)]
    opts = {"units": 0.15, "percent": 0.1, "nested_svg": 0.3, "use": 0.6, "hidden": 0.05, "depth": 3 if tier == "quick" else 5}
    doc = GD.add_paint(R, GD.generate(R, opts), 0.25)
    add_other_elements(R, doc)
    pm = GD.parent_map(doc)
    nodes = [n for n in GD.walk(doc) if n is not doc and n["tag"] != "defs"]
    faults = []  # {"id", "attr", "text"}
    added = []
    nf = R.choice([1, 1, 1, 2, 3])

    def one(kind):
        if kind == "d":
            c = [n for n in nodes if n["tag"] == "path"]
            if c:
                return {"id": R.choice(c)["id"], "attr": "d", "text": bad_path_data(R)}
            kind = "transform"
        if kind == "points":
            c = [n for n in nodes if n["tag"] in ("polyline", "polygon")]
            if c:
                return {"id": R.choice(c)["id"], "attr": "points", "text": R.choice(BAD["points"])}
            kind = "length"
        if kind in ("viewbox", "par"):
            c = [n for n in nodes if n["tag"] == "svg"] + ([doc] if R.random() < 0.15 else [])
            if c:
                return {"id": R.choice(c)["id"], "attr": "viewBox" if kind == "viewbox" else "preserveAspectRatio", "text": R.choice(BAD[kind])}
            kind = "transform"
        if kind == "length":
            c = [n for n in nodes if n["tag"] in GEOM]
            if c:
                n = R.choice(c)
                return {"id": n["id"], "attr": R.choice(GEOM[n["tag"]]), "text": R.choice(BAD["length"])}
            kind = "transform"
        if kind == "href":
            c = [n for n in nodes if n["tag"] == "use"]
            if c:
                n = R.choice(c)
                k = R.random()
                if k < 0.4:
                    return {"id": n["id"], "attr": "href", "text": R.choice(BAD["href"])}
                if k < 0.6:
                    return {"id": n["id"], "attr": "href", "text": "#" + n["id"]}  # self
                anc = []
                p = pm.get(n["id"])
                while p is not None:
                    anc.append(p["id"])
                    p = pm.get(p["id"])
                return {"id": n["id"], "attr": "href", "text": "#" + R.choice(anc)}  # ancestor (possibly the root)
            kind = "cycle"
        if kind == "cycle":
            gs = [n for n in nodes if n["tag"] == "g"] or [doc]
            a, b = R.choice(gs), R.choice(gs)
            how = R.choice(["mutual", "self-child", "triple", "use-to-use"])
            base = "f%d" % len(added)
            if how == "self-child" or (how == "mutual" and a is b):
                added.append({"parent": a["id"], "node": {"tag": "use", "id": base + "a", "geom": {}, "children": [], "attrs": {}, "href": a["id"], "xlink": R.random() < 0.5}})
            elif how == "mutual":
                added.append({"parent": a["id"], "node": {"tag": "use", "id": base + "a", "geom": {}, "children": [], "attrs": {}, "href": b["id"], "xlink": False}})
                added.append({"parent": b["id"], "node": {"tag": "use", "id": base + "b", "geom": {}, "children": [], "attrs": {}, "href": a["id"], "xlink": True}})
            elif how == "triple":
                c = R.choice(gs)
                for x, y, s in ((a, b, "a"), (b, c, "b"), (c, a, "c")):
                    added.append({"parent": x["id"], "node": {"tag": "use", "id": base + s, "geom": {"x": [1.0, ""]}, "children": [], "attrs": {}, "href": y["id"], "xlink": False}})
            else:
                # two use elements referencing each other
                added.append({"parent": a["id"], "node": {"tag": "use", "id": base + "a", "geom": {}, "children": [], "attrs": {}, "href": base + "b", "xlink": False}})
                added.append({"parent": b["id"], "node": {"tag": "use", "id": base + "b", "geom": {}, "children": [], "attrs": {}, "href": base + "a", "xlink": False}})
            return None
        if kind == "misc":
            n = R.choice(nodes)
            a = R.choice(["style", "style", "style", "display", "class", "vector-effect", "font-size", "clip-path"])
            return {"id": n["id"], "attr": a, "text": R.choice(BAD[a])}
        if kind == "colour":
            n = R.choice(nodes)
            return {"id": n["id"], "attr": R.choice(["fill", "stroke", "color"]), "text": R.choice(BAD["colour"])}
        if kind == "number":
            n = R.choice(nodes)
            return {"id": n["id"], "attr": R.choice(["stroke-width", "fill-opacity", "stroke-opacity", "opacity"]), "text": R.choice(BAD["number"])}
        n = R.choice(nodes)
        return {"id": n["id"], "attr": "transform", "text": R.choice(BAD["transform"])}

    f = one(kind)
    if f:
        faults.append(f)
        if f["attr"] == "d" and R.random() < 0.5:
            # a second faulty path elsewhere in the same document (state carried from one path's failed parse into the next)
            others = [n for n in nodes if n["tag"] == "path" and n["id"] != f["id"]]
            if others:
                faults.append({"id": R.choice(others)["id"], "attr": "d", "text": bad_path_data(R)})
    for _ in range(nf - 1):
        f = one(R.choice(KINDS))
        if f:
            faults.append(f)
    return {"stratum": kind, "doc": doc, "faults": faults, "added": added}


def shrink_candidates(case):
    doc = case["doc"]
    keep = {f["id"] for f in case["faults"]} | {a["parent"] for a in case["added"]}
    if len(case["faults"]) + len(case["added"]) > 1:
        for i in range(len(case["faults"])):
            c = copy.deepcopy(case)
            del c["faults"][i]
            yield c
    for n in GD.walk(doc):
        if n is doc or (GD.subtree_ids(n) & keep):
            continue
        c = copy.deepcopy(case)
        c["doc"] = GD.remove_ids(doc, {n["id"]})
        yield c
    for n in GD.walk(doc):
        if n.get("tf"):
            c = copy.deepcopy(case)
            m = GD.find(c["doc"], n["id"])
            m["tf"], m["tftext"] = None, None
            yield c
        if n.get("attrs"):
            c = copy.deepcopy(case)
            GD.find(c["doc"], n["id"])["attrs"] = {k: v for k, v in n["attrs"].items() if k == "display"}
            yield c


def build(case):
    """-> (xml of D, xml of D', offending ids, ids that may legitimately appear only in D)"""
    tree = copy.deepcopy(case["doc"])
    for a in case["added"]:
        GD.find(tree, a["parent"])["children"].append(copy.deepcopy(a["node"]))
    override = {}
    href = {}
    for f in case["faults"]:
        if f["attr"] == "href":
            n = GD.find(tree, f["id"])
            override.setdefault(f["id"], {})["xlink:href" if n.get("xlink") else "href"] = f["text"]
            href[f["id"]] = f["text"][1:] if f["text"].startswith("#") else None
        else:
            override.setdefault(f["id"], {})[f["attr"]] = f["text"]
    offending = {f["id"] for f in case["faults"]} | {a["node"]["id"] for a in case["added"]}
    # ids that can be rendered through an offending element: its subtree, and whatever a use in it (or it) references
    target = {}
    for n in GD.walk(tree):
        if n["tag"] == "use":
            target[n["id"]] = href[n["id"]] if n["id"] in href else n.get("href")
    allowed = set()
    work = list(offending)
    while work:
        i = work.pop()
        n = GD.find(tree, i)
        if n is None:
            continue
        for m in GD.walk(n):
            if m["id"] in allowed:
                continue
            allowed.add(m["id"])
            if m["tag"] == "use" and target.get(m["id"]):
                work.append(target[m["id"]])
    d = GD.to_xml(tree, override)
    dprime = GD.to_xml(GD.remove_ids(tree, offending))
    return d, dprime, offending, allowed


def signature(S, shape):
    geo = DM.lib_geometry(S, shape)

    def col(c):
        return None if c is None or c.value is None else int(c.value)
    return (DM.tag_of(shape), shape.id, geo, col(shape.fill), col(shape.stroke), shape.stroke_width)


def same(a, b):
    if a[0] != b[0] or a[1] != b[1] or a[3] != b[3] or a[4] != b[4]:
        return False
    wa, wb = a[5], b[5]
    if (wa is None) != (wb is None):
        return False
    if wa is not None and abs(wa - wb) > 1e-9 * max(1.0, abs(wa)):
        return False
    if len(a[2]) != len(b[2]):
        return False
    for (ka, pa), (kb, pb) in zip(a[2], b[2]):
        if ka != kb or len(pa) != len(pb):
            return False
        for p, q in zip(pa, pb):
            m = max(1.0, abs(p[0]), abs(p[1]))
            if not (abs(p[0] - q[0]) <= 1e-9 * m and abs(p[1] - q[1]) <= 1e-9 * m):
                return False
    return True


_steps = None


def where_raised(e, full=False):
    """the mechanism: innermost library functions on the traceback (qualified names)"""
    names = []
    tb = e.__traceback__
    while tb is not None:
        co = tb.tb_frame.f_code
        if co.co_filename.endswith("svgelements.py"):
            names.append(getattr(co, "co_qualname", co.co_name))
        tb = tb.tb_next
    if full:
        return " > ".join(names)
    inner = [n for n in names if n != "SVG.parse"]
    return inner[-1] if inner else "SVG.parse"


def setup(S, ctx, tier):
    global _steps
    _steps = StepCounter()


def run_case(S, case, ctx):
    d, dprime, offending, allowed = build(case)
    ctx.maxval("offending elements", len(offending))
    for f in case["faults"]:
        ctx.note("fault on " + f["attr"])
    for a in case["added"]:
        ctx.note("cyclic use added")
    alone_kinds = {}
    for f in case["faults"]:
        if f["attr"] == "d":
            try:
                S.Path("M0,0 L1,1 z")  # leaves the path parser in its rest state whatever the previous data did
                alone = S.Path()
                try:
                    alone.parse(f["text"])
                except ValueError:
                    pass
                alone_kinds[f["id"]] = [type(seg).__name__ for seg in alone]
                S.Path("M0,0 L1,1 z")
            except Exception:
                pass  # C09's subject
    ctx.mon("no-exception")
    what = "+".join(sorted({f["attr"] for f in case["faults"]} | ({"use-cycle"} if case["added"] else set())))
    count = _steps is not None and (ctx.case_index or 0) % 4 == 0
    try:
        if count:
            ctx.mon("steps")
            _steps.start(STEP_LIMIT)
        try:
            svg = S.SVG.parse(io.StringIO(d))
        finally:
            if count:
                ctx.maxval("parse steps (line events)", _steps.stop())
    except StepLimit:
        ctx.violation("step-bound-exceeded/%s" % what, "SVG.parse did not finish within %d line events; document %s" % (STEP_LIMIT, d), monitor="steps")
        return
    except RecursionError as e:
        ctx.violation("raises/RecursionError/%s" % ("cyclic-use" if (case["added"] or any(f["attr"] == "href" for f in case["faults"])) else what), "SVG.parse(%s): RecursionError" % d, monitor="no-exception")
        return
    except Exception as e:
        ctx.violation("raises/%s/%s" % (type(e).__name__, where_raised(e)), "SVG.parse(%s): %r raised in %s" % (d, e, where_raised(e, True)), monitor="no-exception")
        return
    if case["doc"]["id"] in offending:
        case["outside"] = 0
        ctx.note("the outermost svg is the offending element")
        return  # the whole document is the offending element's subtree
    ctx.mon("returns-tree")
    if svg is None or not isinstance(svg, S.SVGElement):
        ctx.violation("returns-no-tree/%s" % what, "SVG.parse(%s) returned %r" % (d, svg), monitor="returns-tree")
        return
    got = []
    for sh in DM.shapes(S, svg):
        try:
            got.append(signature(S, sh))
        except Exception as e:
            undefined = isinstance(sh, S.Path) and any((seg.end is None) or (seg.start is None and not isinstance(seg, S.Move)) for seg in sh)
            if sh.id in allowed and undefined:
                ctx.violation("offending-element-neither-skipped-nor-rendered/path/drawing-command-before-any-moveto",
                              "path #%s is returned with undefined (None) coordinates; abs(Path(shape)) raises %r; document %s" % (sh.id, e, d), monitor="returns-tree")
            elif sh.id in allowed:
                ctx.violation("offending-element-neither-skipped-nor-rendered/%s/%s/%s" % (DM.tag_of(sh), type(e).__name__, where_raised(e)),
                              "%s #%s is returned but abs(Path(shape)) raises %r (in %s); document %s" % (DM.tag_of(sh), sh.id, e, where_raised(e, True), d), monitor="returns-tree")
            else:
                ctx.violation("sibling-unusable/%s/%s" % (type(e).__name__, where_raised(e)), "%s #%s (not an offending element) is returned but abs(Path(shape)) raises %r; document %s" % (
                    DM.tag_of(sh), sh.id, e, d), monitor="siblings-unaffected")
            return
    # "rendered up to the error": a path whose data is in error, when it is rendered at all, carries the segments the same data gives when parsed
    # on its own (that prefix is C09's subject) - whatever else was parsed before it in this document
    dfaults = [f for f in case["faults"] if f["attr"] == "d"]
    for f in dfaults:
        if sum(1 for g in dfaults if g["id"] == f["id"]) > 1 or f["text"].lstrip(" \t\r\n\f")[:1] not in ("M", "m"):
            continue  # data that does not begin with a moveto is a fragment at Path level but an error in a document: no common reading
        inst = [sh for sh in DM.shapes(S, svg) if isinstance(sh, S.Path) and sh.id == f["id"]]
        if not inst:
            continue
        if f["id"] not in alone_kinds:
            continue
        ctx.mon("offending-path-as-alone")
        want = alone_kinds[f["id"]]
        for sh in inst:
            have = [type(seg).__name__ for seg in sh]
            if have != want:
                ctx.violation("offending-path-differs-from-same-data-alone/%s" % ("more-segments" if len(have) > len(want) else "fewer-segments" if len(have) < len(want) else "kinds"),
                              "path #%s with d=%r is rendered as %s, the same data parsed on its own gives %s; document %s" % (f["id"], f["text"], have, want, d), monitor="offending-path-as-alone")
                return
    try:
        ref = [signature(S, s) for s in DM.shapes(S, S.SVG.parse(io.StringIO(dprime)))]
    except Exception as e:
        ctx.undecided("reference-parse-failed/%s" % type(e).__name__)
        return
    case["outside"] = len(ref)
    ctx.maxval("shapes outside the offending subtrees", len(ref))
    # ref must be a subsequence of got (greedy), the rest of got must be attributable
    ctx.mon("siblings-unaffected")
    ctx.mon("no-foreign-shapes")
    j = 0
    extra = []
    for g in got:
        if j < len(ref) and same(g, ref[j]):
            j += 1
        else:
            extra.append(g)
    if j < len(ref):
        r = ref[j]
        # is the shape there but different, or absent?
        cands = [g for g in extra if g[0] == r[0] and g[1] == r[1]]
        how = "changed" if cands else "lost"
        if cands:
            g = cands[0]
            which = "paint" if (g[2] == r[2] or same((g[0], g[1], g[2], r[3], r[4], r[5]), r)) else "geometry"
            how = "changed-" + which
        ctx.violation("sibling-%s/%s" % (how, what), "%s #%s outside the offending elements %s is %s: without them %s, with them %s; document %s" % (
            r[0], r[1], sorted(offending), how, r[2:], [g[2:] for g in cands][:1], d), monitor="siblings-unaffected")
        return
    foreign = [g for g in extra if g[1] not in allowed]
    if foreign:
        g = foreign[0]
        ctx.violation("foreign-shape/%s" % what, "%s #%s appears only in the faulted parse but is not part of an offending element (%s); document %s" % (g[0], g[1], sorted(offending), d), monitor="no-foreign-shapes")
