"""C12 - length units resolve by CSS ratios; length arithmetic agrees with values."""
import math
from fractions import Fraction as F

from ..ref import lengthref as L

ID = "C12"
RULE = (
    "amounts (sign, fractions, exponents, zero) x the 14 units; value() under contexts that supply or withhold ppi, a reference "
    "length (number / string / Length, itself unit-bearing), font metrics and viewBoxes with width<height and width>height; the "
    "binary operations + - / < <= > >= == != over all 14 x 14 ordered unit pairs (the pair is enumerated by the case index) with "
    "operands given as Length, string or number; to_mm / to_cm / to_inch round trips. Every result is compared with exact "
    "rational arithmetic; a length that cannot be resolved must stay symbolic (or the operation must raise ValueError), never "
    "become a guessed number. Non-trivial = non-zero amounts."
)
BUDGET = {"quick": 78400, "thorough": 3920000}
TIME_CAP = {"quick": 240, "thorough": 1500}
ANCHORS = ["Length.__init__", "Length.value", "Length.__iadd__", "Length.__isub__", "Length.__truediv__", "Length.__imul__", "Length.__eq__", "Length.in_pixels",
           "Length.in_inches", "Length.__lt__", "Length.to_mm", "Length.to_cm", "Length.to_inch"]
REQUIRED_MONITORS = ["value", "stays-symbolic", "binary-resolvable", "binary-unresolvable", "ordering", "equality", "conversion", "result-is-a-fresh-object"]

PAIRS = [(a, b) for a in L.UNITS for b in L.UNITS]  # 196


def strata_minimum(tier):
    f = 1 if tier == "quick" else 20
    return {"value": 15000 * f, "binary": 40000 * f, "conversion": 4000 * f}


def nontrivial(case):
    return case.get("a", 1) != 0


def _amount(R):
    k = R.random()
    if k < 0.08:
        return 0.0
    if k < 0.4:
        return float(R.randint(-30, 30))
    if k < 0.7:
        return round(R.uniform(-200, 200), R.randint(0, 4))
    if k < 0.85:
        return R.choice([0.5, 0.125, 2.54, 25.4, 72.0, 96.0, 12.0, 16.0, 0.75, 1.0 / 3.0])
    return R.choice([-1, 1]) * 10 ** R.uniform(-3, 4)


def _spell(R, a, unit):
    forms = [repr(a) + unit]
    if a == int(a):
        forms.append("%d%s" % (a, unit))
    forms.append("%.10e%s" % (a, unit))
    t = R.choice(forms)
    return t if float(t[: len(t) - len(unit)] if unit else t) == a else repr(a) + unit


def gen_case(R, index, tier):
    k = R.random()
    u1, u2 = PAIRS[index % len(PAIRS)]
    a, b = _amount(R), _amount(R)
    ctx = {}
    if R.random() < 0.6:
        ctx["ppi"] = R.choice([72.0, 96.0, 100.0, 254.0, 1000.0])
    if R.random() < 0.6:
        w = R.random()
        ctx["relative_length"] = R.choice([300.0, 77.5]) if w < 0.4 else ([R.choice([2.0, 50.0]), R.choice(["in", "cm", "pt", "px", "", "ex", "em"])] if w < 0.8 else [R.choice([10.0, 3.5]), "mm"])
        ctx["ref_as"] = R.choice(["str", "Length"])
    if R.random() < 0.6:
        ctx["font_size"] = R.choice([12.0, 16.0, 9.5])
        if R.random() < 0.7:
            ctx["font_height"] = R.choice([7.0, 5.5, 12.0])
    if R.random() < 0.6:
        ctx["viewbox"] = R.choice([[0, 0, 200, 50], [0, 0, 50, 200], [10, -5, 123.5, 77.25], [0, 0, 100, 100]])
    if k < 0.28:
        return {"stratum": "value", "a": a, "u": u1, "text": _spell(R, a, u1), "ctx": ctx}
    if k < 0.93:
        return {"stratum": "binary", "a": a, "u1": u1, "b": b, "u2": u2, "right_as": R.choice(["Length", "Length", "str", "number"]), "ppi": R.choice([72.0, 96.0, 254.0])}
    case = {"stratum": "conversion", "a": a, "u": R.choice(["", "px", "pt", "pc", "in", "cm", "mm"]), "ppi": R.choice([72.0, 96.0, 254.0, 1000.0])}
    if R.random() < 0.4:
        # a relative unit converted with the full context supplied (every metric distinct, so that a swapped argument shows)
        case["u"] = R.choice(["em", "ex", "%", "vw", "vh", "vmin", "vmax"])
        case["full"] = {"relative_length": R.choice([300.0, 77.5]), "font_size": R.choice([12.0, 16.0, 9.5]), "font_height": R.choice([7.0, 5.5, 11.0]),
                        "viewbox": R.choice([[0, 0, 200, 50], [0, 0, 50, 200], [10, -5, 123.5, 77.25]])}
    return case


def _ctx_kwargs(S, ctx):
    kw = {}
    for n in ("ppi", "font_size", "font_height"):
        if n in ctx:
            kw[n] = ctx[n]
    if "viewbox" in ctx:
        kw["viewbox"] = "%r %r %r %r" % tuple(ctx["viewbox"])
    if "relative_length" in ctx:
        r = ctx["relative_length"]
        if isinstance(r, list):
            t = "%r%s" % (r[0], r[1])
            kw["relative_length"] = t if ctx.get("ref_as") == "str" else S.Length(t)
        else:
            kw["relative_length"] = r
    return kw


def _ref_ctx(ctx):
    c = {k: v for k, v in ctx.items() if k != "ref_as"}
    if "relative_length" in c and isinstance(c["relative_length"], list):
        c["relative_length"] = tuple(c["relative_length"])
    return c


def rel_of(unit, *more):
    """the library's in/cm/mm constants have 6 significant digits (0.393701, 0.0393701; pinned by its tests)"""
    return 2e-6 if any(u in ("cm", "mm", "in") for u in (unit,) + more) else 1e-12


def run_case(S, case, ctx):
    st = case["stratum"]
    if st == "value":
        return _run_value(S, case, ctx)
    if st == "binary":
        return _run_binary(S, case, ctx)
    return _run_conversion(S, case, ctx)


def _run_value(S, case, ctx):
    a, u, c = case["a"], case["u"], case["ctx"]
    ctx.mon("value")
    try:
        Lg = S.Length(case["text"])
    except Exception as e:
        ctx.violation("length-parse-raises/%s/%s" % (type(e).__name__, u or "unitless"), "Length(%r): %r" % (case["text"], e), monitor="value")
        return
    if Lg.amount != a or Lg.units != u:
        ctx.violation("length-parse/%s" % (u or "unitless"), "Length(%r) has amount %r units %r" % (case["text"], Lg.amount, Lg.units), monitor="value")
        return
    kw = _ctx_kwargs(S, c)
    want = L.resolve(a, u, _ref_ctx(c))
    try:
        got = Lg.value(**kw)
    except Exception as e:
        ctx.violation("value-raises/%s/%s" % (type(e).__name__, u or "unitless"), "Length(%r).value(%s): %r" % (case["text"], kw, e), monitor="value")
        return
    ref_unit = c["relative_length"][1] if isinstance(c.get("relative_length"), list) else ""
    if want is None:
        ctx.mon("stays-symbolic")
        if not isinstance(got, S.Length):
            if a == 0 and got == 0:
                return  # zero of anything is zero
            ctx.violation("guessed-instead-of-symbolic/%s%s" % (u, ("-of-" + ref_unit) if u == "%" else ""), "Length(%r).value(%s) = %r although the information to resolve it is missing" % (case["text"], kw, got), monitor="stays-symbolic")
        return
    if isinstance(got, S.Length):
        ctx.violation("unresolved-although-resolvable/%s%s" % (u, ("-of-" + ref_unit) if u == "%" else ""), "Length(%r).value(%s) stayed %r, it resolves to %s" % (case["text"], kw, got, float(want)), monitor="value")
        return
    rel = rel_of(u, ref_unit)
    tol = rel * abs(float(want)) + 1e-15
    if ctx.see("value", abs(float(got) - float(want)) / tol) > 1:
        ctx.violation("value-wrong/%s%s" % (u or "unitless", ("-of-" + (ref_unit or "number")) if u == "%" else ""), "Length(%r).value(%s) = %r, CSS gives %r" % (case["text"], kw, got, float(want)), monitor="value")


def _operand(S, case):
    t = "%r%s" % (case["b"], case["u2"])
    ra = case["right_as"]
    if ra == "Length":
        return S.Length(t), t
    if ra == "str":
        return t, repr(t)
    return case["b"], repr(case["b"])


def _resolved(S, x, ppi):
    """user units of a library result (Length or number) at the given ppi, as Fraction; None if it stays symbolic"""
    if isinstance(x, S.Length):
        v = x.value(ppi=ppi)
        if isinstance(v, S.Length):
            return None
        return L.frac(v)
    return L.frac(x)


def _run_binary(S, case, ctx):
    a, u1, b, u2 = case["a"], case["u1"], case["b"], case["u2"]
    ra = case["right_as"]
    if ra == "number":
        u2 = ""
    A = S.Length("%r%s" % (a, u1))
    B, btxt = _operand(S, dict(case, u2=u2))
    ppi = case["ppi"]
    com = L.common(u1, u2)
    what0 = "Length('%r%s')" % (a, u1)
    pair = "%s-%s" % (u1 or "unitless", u2 or "unitless")
    rel = rel_of(u1, u2) if (u1 != u2) else 1e-12
    ops = [("+", lambda: A + B), ("-", lambda: A - B), ("/", lambda: A / B), ("<", lambda: A < B), ("<=", lambda: A <= B), (">", lambda: A > B), (">=", lambda: A >= B), ("==", lambda: A == B), ("!=", lambda: A != B)]
    for name, f in ops:
        what = "%s %s %s" % (what0, name, btxt)
        if name == "/" and b == 0:
            continue
        try:
            r = f()
            exc = None
        except ValueError as e:
            r, exc = None, e
        except Exception as e:
            ctx.violation("binary-raises/%s/%s/%s" % (type(e).__name__, name, pair), "%s: %r" % (what, e), monitor="binary-resolvable" if com else "binary-unresolvable")
            continue
        if A.amount != a or A.units != u1:
            ctx.violation("operand-modified/%s/%s" % (name, pair), "%s changed the left operand to %r" % (what, A), monitor="binary-resolvable")
            return
        if isinstance(B, S.Length) and name in ("+", "-") and isinstance(r, S.Length):
            # the result is a value of its own: changing it in place must reach neither operand (zero + x returning x itself would)
            ctx.mon("result-is-a-fresh-object")
            snap_b = (B.amount, B.units)
            which = "left" if r is A else ("right" if r is B else None)
            if which is None:
                try:
                    r.amount = r.amount + 1.0
                except Exception:
                    pass
                if (A.amount, A.units) != (a, u1):
                    which = "left"
                elif (B.amount, B.units) != snap_b:
                    which = "right"
            if which:
                ctx.violation("result-shares-state-with-operand/%s/%s/%s" % (name, which, "zero-left" if a == 0 else ("zero-right" if b == 0 else "nonzero")),
                              "%s returned an object that is (or shares its state with) its %s operand" % (what, which), monitor="result-is-a-fresh-object")
                return
            if which is None:
                try:
                    r.amount = r.amount - 1.0
                except Exception:
                    pass
        if com is None:
            ctx.mon("binary-unresolvable")
            # never a guess: ValueError, a symbolic Length, or (== / !=) a plain "not equal"
            if exc is not None:
                continue
            if a == 0 or b == 0:
                continue  # zero needs no unit
            if name in ("==", "!="):
                if r is (name == "=="):
                    ctx.violation("unresolvable-pair-compares-equal/%s" % pair, "%s is %r" % (what, r), monitor="binary-unresolvable")
                continue
            if name in ("<", "<=", ">", ">="):
                ctx.violation("unresolvable-pair-ordered/%s/%s" % (name, pair), "%s = %r: an order between lengths that cannot be compared without context" % (what, r), monitor="binary-unresolvable")
                continue
            if not isinstance(r, S.Length):
                ctx.violation("guessed-instead-of-symbolic/%s/%s" % (name, pair), "%s = %r (a number) although the units cannot be combined without context" % (what, r), monitor="binary-unresolvable")
            continue
        ctx.mon("binary-resolvable")
        va, vb = com(a, u1), com(b, u2)
        scale = max(abs(float(va)), abs(float(vb)), 1e-300)
        if exc is not None:
            ctx.violation("resolvable-pair-raises/%s/%s" % (name, pair), "%s raised ValueError although both resolve (%s and %s in a common unit)" % (what, float(va), float(vb)), monitor="binary-resolvable")
            continue
        if name in ("+", "-"):
            want = va + vb if name == "+" else va - vb
            if not isinstance(r, S.Length):
                got = L.frac(r)
                gu = ""
            else:
                gu = r.units
                if L.common(gu, u1) is None:
                    if r.amount == 0 and want == 0:
                        continue
                    ctx.violation("sum-in-foreign-unit/%s/%s" % (name, pair), "%s = %r" % (what, r), monitor="binary-resolvable")
                    continue
                got = com(r.amount, gu)
            if ctx.see("sum", abs(float(got - want)) / (rel * scale + 1e-300)) > 1:
                ctx.violation("sum-wrong/%s/%s" % (name, pair), "%s = %r = %s in the common unit, expected %s" % (what, r, float(got), float(want)), monitor="binary-resolvable")
        elif name == "/":
            want = va / vb
            try:
                got = float(r)
            except Exception:
                ctx.violation("ratio-not-a-number/%s" % pair, "%s = %r" % (what, r), monitor="binary-resolvable")
                continue
            if ctx.see("ratio", abs(got - float(want)) / (rel * abs(float(want)) + 1e-300)) > 1:
                ctx.violation("ratio-wrong/%s" % pair, "%s = %r, the ratio of the values is %r" % (what, got, float(want)), monitor="binary-resolvable")
        elif name in ("<", "<=", ">", ">="):
            ctx.mon("ordering")
            if abs(float(va - vb)) <= 4 * rel * scale:
                continue  # too close to call at the library's precision
            want = {"<": va < vb, "<=": va <= vb, ">": va > vb, ">=": va >= vb}[name]
            if bool(r) != want:
                ctx.violation("order-wrong/%s/%s" % (name, pair), "%s = %r; the values are %s and %s" % (what, r, float(va), float(vb)), monitor="ordering")
        else:
            ctx.mon("equality")
            diff = abs(float(va - vb))
            eq = bool(r) if name == "==" else not bool(r)
            if diff > 1e-4 * scale and eq:
                ctx.violation("different-lengths-equal/%s" % pair, "%s = %r; the values are %s and %s" % (what, r, float(va), float(vb)), monitor="equality")
            elif va == vb and not eq:
                # equal by the exact ratios: demanded whenever the library's own resolved values agree (they do not for
                # cm/mm against in, whose 6-digit constants differ from 2.54 in the 7th digit)
                ra_, rb_ = _resolved(S, A, ppi), _resolved(S, B if isinstance(B, S.Length) else S.Length(B), ppi)
                if ra_ is not None and rb_ is not None and abs(float(ra_ - rb_)) <= 1e-9 * max(abs(float(ra_)), 1e-300):
                    ctx.violation("equal-lengths-unequal/%s" % pair, "%s = %r although both resolve to %s" % (what, r, float(ra_)), monitor="equality")


def _run_conversion(S, case, ctx):
    a, u, ppi = case["a"], case["u"], case["ppi"]
    ctx.mon("conversion")
    Lg = S.Length("%r%s" % (a, u))
    full = dict(case.get("full") or {}, ppi=ppi)
    want = L.resolve(a, u, _ref_ctx(full))
    if want is None or isinstance(want, tuple):
        ctx.undecided("conversion-reference-symbolic")
        return
    kw = _ctx_kwargs(S, full)
    for name, per_inch in (("to_mm", F(254, 10)), ("to_cm", F(254, 100)), ("to_inch", F(1))):
        try:
            r = getattr(Lg, name)(**kw)
        except Exception as e:
            ctx.violation("conversion-raises/%s/%s" % (type(e).__name__, name), "Length('%r%s').%s(ppi=%r): %r" % (a, u, name, ppi, e), monitor="conversion")
            continue
        exp_amount = want / L.frac(ppi) * per_inch
        exp_unit = {"to_mm": "mm", "to_cm": "cm", "to_inch": "in"}[name]
        if not isinstance(r, S.Length) or r.units != exp_unit:
            ctx.violation("conversion-unit/%s" % name, "Length('%r%s').%s(ppi=%r) = %r" % (a, u, name, ppi, r), monitor="conversion")
            continue
        tol = 2e-6 * abs(float(exp_amount)) + 1e-11  # 6-digit constants, 12-decimal text
        if ctx.see("conversion", abs(r.amount - float(exp_amount)) / tol) > 1:
            ctx.violation("conversion-wrong/%s/from-%s" % (name, u or "unitless"), "Length('%r%s').%s(ppi=%r) = %r, expected %r%s" % (a, u, name, ppi, r, float(exp_amount), exp_unit), monitor="conversion")
            continue
        # and back
        back = r.value(ppi=ppi)
        if isinstance(back, S.Length) or abs(back - float(want)) > 4e-6 * abs(float(want)) + 1e-9 * ppi:
            ctx.violation("conversion-round-trip/%s" % name, "Length('%r%s').%s(ppi=%r).value(ppi) = %r, the length is %r user units" % (a, u, name, ppi, back, float(want)), monitor="conversion")
