"""C01 - path data is interpreted exactly as the SVG path grammar prescribes."""
import math

from .. import monitors
from ..gen import pathdata as G
from ..num import b_arcsolve, b_exact, dist
from ..ref import arcref, pathref, pathscan

ID = "C01"
RULE = (
    "abstract path programs (all 20x20 ordered command-letter pairs first, then random walks of 1-40 commands; implicit "
    "repetition, SVG 2 segment-completing z, consecutive moves, close followed by non-move, leading relative move) spelled "
    "with every legal number/separator spelling; the real Path(text) is compared segment by segment with an interpreter "
    "over the abstract program and the text is re-read by an independent BNF scanner. Non-trivial = at least one drawing "
    "command after the initial move; distinct = distinct (program, text) digest."
)
BUDGET = {"quick": 20000, "thorough": 600000}
TIME_CAP = {"quick": 240, "thorough": 1500}
ANCHORS = [
    "SVGLexicalParser.parse", "SVGLexicalParser._command", "SVGLexicalParser._more", "SVGLexicalParser._number",
    "SVGLexicalParser._flag", "SVGLexicalParser._coord", "SVGLexicalParser._rcoord", "Path.move", "Path.line", "Path.vertical",
    "Path.horizontal", "Path.smooth_quad", "Path.quad", "Path.smooth_cubic", "Path.cubic", "Path.arc", "Path.closed",
    "Path.append", "Path._validate_connection", "Path._validate_close", "Path.smooth_point", "Path.z_point", "Path.current_point",
]
REQUIRED_MONITORS = ["segment-vs-reference", "connectivity", "speller-vs-scanner", "path-links", "arc-pointwise"]

KIND = {"M": "Move", "L": "Line", "Z": "Close", "Q": "QuadraticBezier", "C": "CubicBezier", "A": "Arc"}
ARC_T = [0.0, 0.125, 0.25, 0.375, 0.5, 0.625, 0.75, 0.875, 1.0]


def strata_minimum(tier):
    f = 1 if tier == "quick" else 20
    return {"letter-pair": 400, "walk": 2000 * f, "long-walk": 100 * f, "smooth-chains": 300 * f, "z-completing": 300 * f, "empty": 5}


def setup(S, ctx, tier):
    monitors.install_path_invariants(S)


def nontrivial(case):
    return len(case["prog"]) > 1


def gen_case(R, index, tier):
    if index < 400:
        prog = G.pair_program(R, index)
        st = "letter-pair"
    else:
        k = R.random()
        if k < 0.004:
            return {"stratum": "empty", "prog": [], "text": R.choice(["", " ", "\n\t", "  \r\n"])}
        if k < 0.70:
            prog = G.program(R, maxcmd=12)
            st = "walk"
        elif k < 0.76:
            prog = G.program(R, ncmd=R.randint(13, 40 if tier == "quick" else 200))
            st = "long-walk"
        elif k < 0.88:
            # chains dominated by curves and their smooth forms, so every degree meets every smooth command
            prog = G.program(R, letters="QqTtCcSsTtSsLlZzMmHhAa", maxcmd=10, zprob=0.05)
            st = "smooth-chains"
        else:
            prog = G.program(R, letters="LlCcSsQqTtAaZzMm", maxcmd=8, zprob=0.6)
            st = "z-completing"
    return {"stratum": st, "prog": prog, "text": G.spell_program(R, prog)}


def shrink_candidates(case):
    prog = case["prog"]
    for i in range(len(prog) - 1, 0, -1):
        p2 = prog[:i] + prog[i + 1:]
        yield {"stratum": case["stratum"], "prog": p2, "text": G.spell_program(None, p2, plain=True)}
    for i, com in enumerate(prog):
        if len(com["g"]) > 1:
            c2 = dict(com)
            c2["g"] = com["g"][:1] if not com.get("z") else com["g"][-1:]
            p2 = prog[:i] + [c2] + prog[i + 1:]
            yield {"stratum": case["stratum"], "prog": p2, "text": G.spell_program(None, p2, plain=True)}
    plain = G.spell_program(None, prog, plain=True)
    if plain != case["text"]:
        yield {"stratum": case["stratum"], "prog": prog, "text": plain}


def _xy(p):
    return None if p is None else (p.x, p.y)


def compare_segments(S, ctx, path, exp, what="Path(text)", monitor="segment-vs-reference"):
    """compare the library's segments with reference segments; returns the first mismatch key or None"""
    if len(path) != len(exp):
        kinds = "".join(type(s).__name__[0] for s in path)
        ctx.violation("segment-count", "%s has %d segments (%s), reference %d (%s)" % (what, len(path), kinds, len(exp), "".join(e["k"] for e in exp)), monitor=monitor)
        return "segment-count"
    for i, (seg, e) in enumerate(zip(path, exp)):
        ctx.mon(monitor)
        if type(seg).__name__ != KIND[e["k"]]:
            key = "kind/%s-for-%s" % (type(seg).__name__, e["cmd"].upper())
            ctx.violation(key, "%s segment %d is %r, reference kind %s (command %s)" % (what, i, seg, KIND[e["k"]], e["cmd"]), monitor=monitor)
            return key
        S_ = e["S"]
        b = b_exact(S_)
        bad = None
        pairs = [("end", _xy(seg.end), e["end"])]
        if i > 0 or e["start"] is not None:
            pairs.append(("start", _xy(seg.start), e["start"]))
        if e["k"] == "C":
            pairs += [("control1", _xy(seg.control1), e["c1"]), ("control2", _xy(seg.control2), e["c2"])]
        elif e["k"] == "Q":
            pairs += [("control", _xy(seg.control), e["c1"])]
        for name, got, want in pairs:
            if got is None or want is None:
                if got is not want and not (got is None and want is None):
                    bad = (name, got, want)
                    break
                continue
            try:
                d = dist(got, want)
            except TypeError:
                bad = (name, got, want)
                break
            if ctx.see("coordinates", d / b) > 1:
                bad = (name, got, want)
                break
        if bad:
            name, got, want = bad
            low, prev = e["cmd"].lower(), (e["prev"] or "-").lower()
            if name in ("control1", "control") and low in "st":
                cls = {"q": "quadratic", "t": "quadratic", "c": "cubic", "s": "cubic"}.get(prev, "non-curve")
                key = "smooth-control/%s-after-%s" % (e["cmd"].upper(), cls)
            else:
                key = "%s/%s%s" % (name, e["cmd"].upper(), "-relative" if e["cmd"].islower() and low != "z" else "")
            ctx.violation(key, "%s segment %d (%s after %s): %s = %s, reference %s" % (what, i, e["cmd"], e["prev"], name, got, want), monitor=monitor)
            return key
        if e["k"] == "A":
            key = compare_arc(S, ctx, seg, e, "%s segment %d" % (what, i))
            if key:
                return key
    return None


def compare_arc(S, ctx, seg, e, what):
    rx, ry, rot, fa, fs = e["arc"]
    ref = arcref.endpoint_to_centre(e["start"][0], e["start"][1], rx, ry, rot, fa, fs, e["end"][0], e["end"][1])
    if ref is None:
        ctx.note("arc-degenerate-in-path")
        return None
    ctx.mon("arc-pointwise")
    chord = dist(e["start"], e["end"])
    size = max(ref.rx, ref.ry, chord)
    bound = b_arcsolve(size, e["S"])
    # conditioning of the end-point -> centre solve: the chord is a difference of coordinates of magnitude S (absolute noise ~ 16 ulp of S), and
    # on a flat ellipse the parameter angle magnifies it by the ratio of the radii (same term as C07's re-parsed arcs)
    ecc = max(ref.rx, ref.ry) / max(min(ref.rx, ref.ry), 1e-300)
    bound += size * min(4.0, ecc * 16e-12 * e["S"] / max(chord, 1e-300))
    worst = 0.0
    for t in ARC_T:
        p = seg.point(t)
        q = ref.point(t)
        worst = max(worst, math.hypot(p.x - q[0], p.y - q[1]))
    if ctx.see("arc-points", worst / bound) > 1:
        key = "arc-geometry/flags=%d%d" % (fa, fs)
        ctx.violation(key, "%s: arc %s from %s to %s deviates from the F.6 arc by %.3g (bound %.3g); sweep=%r reference %r" % (what, e["arc"], e["start"], e["end"], worst, bound, seg.sweep, ref.dtheta), monitor="arc-pointwise")
        return key
    return None


def check_connectivity(S, ctx, path, what="Path(text)"):
    """recomputed from public fields: every segment starts where its predecessor ended; closes return home"""
    ctx.mon("connectivity")
    home = None
    prev_end = None
    for i, seg in enumerate(path):
        st, en = _xy(seg.start), _xy(seg.end)
        if i > 0 and st != prev_end:
            ctx.violation("disconnected", "%s segment %d starts at %s, predecessor ended at %s" % (what, i, st, prev_end), monitor="connectivity")
            return False
        if isinstance(seg, S.Move) or home is None:
            home = en
        if isinstance(seg, S.Close) and en != home:
            ctx.violation("close-not-home", "%s close %d ends at %s, subpath started at %s" % (what, i, en, home), monitor="connectivity")
            return False
        prev_end = en
    return True


def run_case(S, case, ctx):
    text, prog = case["text"], case["prog"]
    # guard the speller with an independent reading of the grammar
    ctx.mon("speller-vs-scanner")
    try:
        back = pathscan.scan(text)
        same = [(c["c"], [[float(x) for x in g] for g in c["g"]], bool(c["z"])) for c in back] == [
            (c["c"], [[float(x) for x in g] for g in c["g"]], bool(c.get("z"))) for c in prog]
    except pathscan.ScanError:
        same = False
    if not same:
        ctx.undecided("speller and BNF scanner disagree (harness defect, case not judged)")
        return
    exp = pathref.interpret(prog)
    try:
        path = S.Path(text)
    except Exception as e:
        cmd = "?"
        ctx.violation("conforming-data-rejected/%s" % type(e).__name__, "Path(%r) raised %r" % (text, e), monitor="segment-vs-reference")
        return
    if compare_segments(S, ctx, path, exp, "Path(%r)" % text):
        return
    check_connectivity(S, ctx, path, "Path(%r)" % text)
    if not prog:
        if len(path) != 0:
            ctx.violation("segment-count", "empty data gave %d segments" % len(path))
        return
    # the same data given through the d attribute and through parse() on an empty path
    ctx.mon("other-entry-points")
    p2 = S.Path(d=text)
    p3 = S.Path()
    p3.parse(text)
    for alt, name in ((p2, "Path(d=...)"), (p3, "Path().parse(...)")):
        if len(alt) != len(path) or any(type(a) is not type(b) or _xy(a.end) != _xy(b.end) for a, b in zip(alt, path)):
            ctx.violation("entry-points-disagree", "%s differs from Path(text) for %r" % (name, text), monitor="other-entry-points")
            return
