"""C15 - lengths are true arc lengths, isometry-invariant, and drive point(t)."""
import math
from copy import copy

from ..gen import geometry as GG
from ..gen import transforms as GT
from ..num import m_apply
from ..ref import bboxref as B
from ..ref import quadrature as Q
from . import c08

ID = "C15"
RULE = (
    "segments of every kind and degeneracy class (collinear / coincident controls, cusps, zero length, near-collinear, circular "
    "and eccentric arcs from tiny to beyond one turn, closed-loop cubics, full-turn arcs), paths of 1-12 segments and basic shapes; "
    "length(error=e) for e in {1e-4, 1e-6, 1e-9} is compared with adaptive Gauss-Legendre quadrature of the speed function "
    "(split at speed minima, own error estimate), with the same call on rotated / translated / reflected / reversed / uniformly "
    "scaled copies, with the sum over segments; point(t) at 0, 1, interior values and interval boundaries +- k ulp is compared "
    "with the segment whose cumulative-length interval contains t. Non-trivial = the object has a curved or degenerate segment."
)
BUDGET = {"quick": 2200, "thorough": 90000}
TIME_CAP = {"quick": 240, "thorough": 1500}
MIN_PER_SHARD = 40
ANCHORS = ["PathSegment.segment_length", "Linear.length", "QuadraticBezier.length", "CubicBezier.length", "Arc.length", "Shape._calc_lengths",
           "Shape.length", "Shape.point", "_RoundShape.point"]
REQUIRED_MONITORS = ["length-vs-quadrature", "isometry-invariance", "reversal-invariance", "uniform-scaling", "sum-of-segments", "point-endpoints", "point-walk"]

ERRORS = [1e-4] * 10 + [1e-6] * 9 + [1e-9]
K_ENVELOPE = 15.0  # 10 x the largest constant seen on the unchanged tree for the local stop criterion


def strata_minimum(tier):
    f = 1 if tier == "quick" else 20
    return {"seg/L": 40 * f, "seg/Q": 100 * f, "seg/C": 200 * f, "seg/A": 200 * f, "special": 40 * f, "path": 200 * f, "shape": 100 * f, "history": 50 * f}


def nontrivial(case):
    return True


_CALLS = [0]


def setup(S, ctx, tier):
    """count the calls of the recursive subdivision (it calls itself through the class attribute), so that the
    number of leaf pieces of a measurement is known: leaves = (calls + 1) / 2"""
    orig = S.PathSegment.__dict__["segment_length"].__func__

    def counting(*a, **k):
        _CALLS[0] += 1
        return orig(*a, **k)

    counting.__wrapped_original__ = orig
    S.PathSegment.segment_length = staticmethod(counting)


def gen_case(R, index, tier):
    k = R.random()
    e = R.choice(ERRORS)
    if k < 0.52:
        kind = "QCCAAL"[index % 6]
        spec, st = GG.segment(R, kind)
        if st in ("huge", "eccentric", "centre-multi-turn", "near-full") and e < 1e-6:
            e = 1e-6  # the library's own subdivision takes seconds per call there
        return {"stratum": "seg/%s" % kind, "seg": spec, "segclass": st, "error": e, "iso": _iso(R), "scale": R.choice([2.0, 0.5, -1.0, -2.5, R.uniform(0.1, 10)])}
    if k < 0.57:
        which = R.choice(["loop-cubic", "full-turn", "collinear-overshoot", "cusp-exact", "zero-close"])
        s = GG.pt(R)
        if which == "loop-cubic":
            spec = {"k": "C", "s": s, "c1": GG._near(R, s, 30), "c2": GG._near(R, s, 30), "e": list(s)}
        elif which == "full-turn":
            rx = R.uniform(0.5, 60)
            ry = rx * R.choice([1.0, 1.0, 0.5, R.uniform(0.2, 4)])
            spec = {"k": "A", "carc": [s[0], s[1], rx, ry, R.uniform(-3, 3), R.uniform(-3, 3), R.choice([-1, 1]) * 2 * math.pi]}
        elif which == "collinear-overshoot":
            d = R.uniform(5, 50)
            ang = R.uniform(0, 6.28)
            u = (math.cos(ang), math.sin(ang))
            f1, f2 = R.uniform(1.2, 3), R.uniform(-2, -0.2)
            spec = {"k": "C", "s": s, "c1": [s[0] + f1 * d * u[0], s[1] + f1 * d * u[1]], "c2": [s[0] + f2 * d * u[0], s[1] + f2 * d * u[1]], "e": [s[0] + d * u[0], s[1] + d * u[1]]}
            if R.random() < 0.5:
                spec = {"k": "C", "s": [0.0, 0.0], "c1": [20.0, 0.0], "c2": [-10.0, 0.0], "e": [10.0, 0.0]}
        elif which == "cusp-exact":
            e2 = GG._near(R, s, 40)
            spec = {"k": "C", "s": s, "c1": list(e2), "c2": list(s), "e": e2}
        else:
            spec = {"k": "Z", "s": s, "e": list(s)}
        return {"stratum": "special", "seg": spec, "segclass": which, "error": R.choice([1e-4, 1e-6]), "iso": _iso(R), "scale": R.choice([2.0, -1.5])}
    if k < 0.80:
        kinds = R.choice([["L", "Q"], ["L", "Q", "A"], ["L", "Q", "C", "A"], ["L"], ["Q", "C"]])
        specs = GG.path(R, nsub=R.randint(1, 3), maxseg=4, kinds=kinds)
        # keep arcs circular or mildly eccentric and cubics few: the library's own subdivision dominates the cost
        return {"stratum": "path", "path": specs, "error": R.choice([1e-3, 1e-4, 1e-4, 1e-6]), "ts": _ts(R), "iso": _iso(R)}
    if k < 0.92:
        return {"stratum": "shape", "shape": GG.shape_spec(R), "error": R.choice([1e-3, 1e-4, 1e-6]), "ts": _ts(R), "iso": _iso(R)}
    specs = GG.path(R, nsub=R.randint(1, 2), maxseg=3, kinds=R.choice([["L", "Q"], ["L", "Q", "A"], ["L", "C"]]))
    return {"stratum": "history", "path": specs, "history": R.choice(["reverse-after-length", "coarse-then-fine", "transform-unreified", "append-after-length", "segment-edit-via-setitem"]),
            "error": 1e-4, "ts": _ts(R), "M": list(GT.affine(R, R.choice(["uniform", "rotate", "translate"]))[1])}


def _iso(R):
    return list(GT.affine(R, R.choice(["rotate", "translate", "reflect-iso", "rotate"]) if False else R.choice(["rotate", "translate"]))[1]) if R.random() < 0.7 else _reflection(R)


def _reflection(R):
    th = R.uniform(-math.pi, math.pi)
    c, s = math.cos(th), math.sin(th)
    return [c, s, s, -c, float(R.randint(-50, 50)), float(R.randint(-50, 50))]


def _ts(R):
    return [0.0, 1.0] + [R.random() for _ in range(4)] + [R.choice([1e-9, 1 - 1e-9, 0.5, 1 - 2 ** -53, 2 ** -60])]


def envelope(L, e):
    """what a subdivision that stops on a *local* chord criterion can be off by in total"""
    return K_ENVELOPE * (abs(L) * e * e) ** (1.0 / 3.0)


def curve_of(S, seg):
    save = c08._SLACK[0]
    cv = c08._curve_of(S, seg)
    c08._SLACK[0] = save
    return cv


def ref_length(S, ctx, seg):
    """reference length of a library segment from its stored defining data; None when the reference is not reliable"""
    if isinstance(seg, S.Move):
        return 0.0, 0.0
    cv = curve_of(S, seg)
    L, err, capped = Q.length(cv)
    return L, (math.inf if capped else err)


def _uses_subdivision(S, seg):
    if isinstance(seg, S.CubicBezier):
        return True
    if isinstance(seg, S.Arc):
        return seg.sweep != 0 and abs(seg.rx - seg.ry) >= 1e-12
    return False


def documented_algorithm(seg, e, min_depth=5, cap=400000):
    """what the library's documented subdivision (chord vs two half chords, stop when they differ by at most e and
    the minimum depth is reached) returns for this segment, evaluated on the segment's own point(); also whether some
    leaf piece satisfied the criterion although the curve is longer than its two chords by more than e (collinear
    samples hiding a fold).  Used only to *classify* a deviation that the quadrature has already established:
    a library value that is not this algorithm's value is not attributed to the algorithm."""
    P = lambda t: seg.point(t)
    total = 0.0
    leaves = []
    stack = [(0.0, 1.0, P(0.0), P(1.0), 0)]
    n = 0
    while stack:
        a, b, pa, pb, d = stack.pop()
        n += 1
        if n > cap:
            return None, None
        m = (a + b) / 2.0
        pm = P(m)
        chord = math.hypot(pb.x - pa.x, pb.y - pa.y)
        poly = math.hypot(pm.x - pa.x, pm.y - pa.y) + math.hypot(pb.x - pm.x, pb.y - pm.y)
        if (poly - chord > e) or d < min_depth:
            stack.append((m, b, pm, pb, d + 1))
            stack.append((a, m, pa, pm, d + 1))
        else:
            total += poly
            leaves.append((a, b, poly))
    return total, leaves


def judge_length(S, ctx, seg, e, what, got=None):
    """LENGTH clause for one segment; returns (library value, reference) or None"""
    kind = type(seg).__name__
    ctx.mon("length-vs-quadrature")
    _CALLS[0] = 0
    try:
        L = seg.length(error=e) if got is None else got
    except RecursionError:
        ctx.violation("length-raises/RecursionError/%s" % kind, "%s.length(error=%g)" % (what, e), monitor="length-vs-quadrature")
        return None
    except Exception as ex:
        ctx.violation("length-raises/%s/%s" % (type(ex).__name__, kind), "%s.length(error=%g): %r" % (what, e, ex), monitor="length-vs-quadrature")
        return None
    ref, rerr = ref_length(S, ctx, seg)
    S_ = max([1e-3] + [abs(v) for p in seg if p is not None for v in (p.x, p.y)])
    tol = max(e, 1e-9 * ref) + 1e-12 * S_
    if rerr > tol / 10:
        ctx.undecided("reference quadrature did not converge to a tenth of the tolerance")
        return None
    dev = abs(L - ref)
    leaves = (_CALLS[0] + 1) // 2
    if ctx.see("length-%s" % kind, dev / tol) > 1:
        if _uses_subdivision(S, seg) and leaves > 1:
            ctx.maxval("deviation_over_leaves_times_error", dev / (leaves * e))
            alg, alg_leaves = documented_algorithm(seg, e)
            if alg is None:
                ctx.undecided("classification replay of the subdivision exceeded its cap")
                return None
            if abs(alg - L) <= 1e-9 * max(abs(L), 1e-300) + 1e-12 * S_:
                if dev <= leaves * e + tol:
                    # every one of the `leaves` pieces met the per-piece criterion, each may contribute up to e
                    ctx.violation("length-error-exceeds-request/%s/local-stop-criterion" % kind, "%s.length(error=%g) = %r, quadrature %r: off by %.3g = %.0f x the requested error; the subdivision ended in %d pieces that each met the criterion" % (
                        what, e, L, ref, dev, dev / e, leaves), monitor="length-vs-quadrature")
                    return L, ref
                cv = curve_of(S, seg)
                for a, b, poly in alg_leaves:
                    true, _, _ = Q.length(cv, a, b)
                    if true - poly > e:
                        ctx.violation("length-error-exceeds-request/%s/criterion-fooled-by-collinear-samples" % kind, "%s.length(error=%g) = %r, quadrature %r: the piece t in [%r, %r] met the criterion (its three samples are collinear) although the curve folds back inside it (%.3g longer than its two chords)" % (
                            what, e, L, ref, a, b, true - poly), monitor="length-vs-quadrature")
                        return L, ref
        ctx.violation("length-wrong/%s" % kind, "%s.length(error=%g) = %r, quadrature %r (deviation %.3g, tolerance %.3g)" % (what, e, L, ref, dev, tol), monitor="length-vs-quadrature")
        return None
    return L, ref


def _attributed(S, ctx, image, e, what):
    """an invariance mismatch whose cause is that the IMAGE's own length misses its own true length: judged (and keyed) as that"""
    before = len(ctx.case_violations)
    judge_length(S, ctx, image, e, what)
    return len(ctx.case_violations) > before


def _inv_tol(S, seg, ref, e, S_, other=None):
    base = max(2 * e, 1e-9 * ref) + 1e-11 * S_
    if _uses_subdivision(S, seg) or (other is not None and _uses_subdivision(S, other)):
        base += 2 * envelope(ref, e)
    return base


def run_case(S, case, ctx):
    st = case["stratum"]
    if st.startswith("seg/") or st == "special":
        return _run_segment(S, case, ctx)
    if st == "path":
        return _run_path(S, case, ctx, GG.build_path(S, case["path"]), "Path(%s)")
    if st == "shape":
        return _run_shape(S, case, ctx)
    return _run_history(S, case, ctx)


def _run_segment(S, case, ctx):
    seg = GG.build_segment(S, case["seg"])
    e = case["error"]
    what = repr(seg)
    kind = type(seg).__name__
    r = judge_length(S, ctx, seg, e, what)
    if r is None:
        return
    L, ref = r
    S_ = max([1e-3] + [abs(v) for p in seg if p is not None for v in (p.x, p.y)])
    # isometries
    ctx.mon("isometry-invariance")
    M = tuple(case["iso"])
    s2 = seg * S.Matrix(*M)
    L2 = s2.length(error=e)
    S2 = max([S_] + [abs(v) for p in s2 if p is not None for v in (p.x, p.y)])
    if ctx.see("isometry", abs(L2 - L) / _inv_tol(S, seg, ref, e, S2, s2)) > 1:
        if _attributed(S, ctx, s2, e, "%s mapped by Matrix%s" % (what, (M,))):
            return
        ctx.violation("not-isometry-invariant/%s" % kind, "%s: length %r, after the isometry Matrix%s %r" % (what, L, M, L2), monitor="isometry-invariance")
        return
    ctx.mon("reversal-invariance")
    s3 = copy(seg)
    s3.reverse()
    L3 = s3.length(error=e)
    if ctx.see("reversal", abs(L3 - L) / _inv_tol(S, seg, ref, e, S_)) > 1:
        if _attributed(S, ctx, s3, e, "%s reversed" % what):
            return
        ctx.violation("not-reversal-invariant/%s" % kind, "%s: length %r, reversed %r" % (what, L, L3), monitor="reversal-invariance")
        return
    ctx.mon("uniform-scaling")
    sc = case["scale"]
    s4 = seg * S.Matrix(sc, 0, 0, sc, 0, 0)
    L4 = s4.length(error=e)
    tol = abs(sc) * max(e, 1e-9 * ref) + max(e, 1e-9 * ref) + 1e-11 * S_ * max(1, abs(sc))
    if _uses_subdivision(S, seg) or _uses_subdivision(S, s4):
        tol += envelope(ref * abs(sc), e) + abs(sc) * envelope(ref, e)
    if ctx.see("scaling", abs(L4 - abs(sc) * L) / tol) > 1:
        if _attributed(S, ctx, s4, e, "%s scaled by %r" % (what, sc)):
            return
        ctx.violation("length-does-not-scale/%s" % kind, "%s: length %r, scaled by %r: %r (expected %r)" % (what, L, sc, L4, abs(sc) * L), monitor="uniform-scaling")


def _walk_expect(S, segs, lengths, t):
    """the points acceptable for point(t): the segment whose cumulative interval contains t, at the corresponding
    fraction; within 4 ulp of an interval boundary either neighbour"""
    total = sum(lengths)
    if total == 0:
        return None
    fr = [x / total for x in lengths]
    out = []
    start = 0.0
    eps = 4 * 2.0 ** -52
    for i, seg in enumerate(segs):
        end = start + fr[i]
        if fr[i] > 0 and end > start and start - eps <= t <= end + eps:
            pos = min(1.0, max(0.0, (t - start) / (end - start)))
            p = seg.point(pos)
            out.append((i, pos, (p.x, p.y)))
        start = end
    if t <= eps:
        f = segs[0].end if isinstance(segs[0], S.Move) or segs[0].start is None else segs[0].start
        out.append((0, 0.0, (f.x, f.y)))
    if t >= 1.0 - eps:
        out.append((len(segs) - 1, 1.0, (segs[-1].end.x, segs[-1].end.y)))
    if not out and t > start - 1e-9:
        # the fractions summed to slightly less than one
        for i in range(len(segs) - 1, -1, -1):
            if fr[i] > 0:
                p = segs[i].point(1.0)
                out.append((i, 1.0, (p.x, p.y)))
                break
    return out


def _check_points(S, ctx, obj, segs, e, ts, what):
    drawn = [s for s in segs]
    if not drawn:
        return
    ctx.mon("point-endpoints")
    first = None
    for s in segs:
        first = s.start if s.start is not None else s.end
        break
    last = segs[-1].end
    try:
        p0, p1 = obj.point(0.0, error=e), obj.point(1.0, error=e)
    except Exception as ex:
        ctx.violation("point-raises/%s" % type(ex).__name__, "%s.point(0 or 1): %r" % (what, ex), monitor="point-endpoints")
        return
    S_ = max([1e-3] + [abs(v) for s in segs for p in s if p is not None for v in (p.x, p.y)])
    tolp = 1e-9 * S_
    f = (segs[0].end if isinstance(segs[0], S.Move) else first)
    if math.hypot(p0.x - f.x, p0.y - f.y) > tolp:
        ctx.violation("point(0)-not-first-point", "%s.point(0) = %s, first point %s" % (what, (p0.x, p0.y), (f.x, f.y)), monitor="point-endpoints")
        return
    if math.hypot(p1.x - last.x, p1.y - last.y) > tolp:
        ctx.violation("point(1)-not-last-point", "%s.point(1) = %s, last point %s" % (what, (p1.x, p1.y), (last.x, last.y)), monitor="point-endpoints")
        return
    lengths = [s.length(error=e) for s in segs]
    total = sum(lengths)
    if total == 0:
        return
    # interior values and values next to the interval boundaries
    cum = []
    acc = 0.0
    for x in lengths:
        acc += x / total
        cum.append(acc)
    probes = list(ts)
    for c in cum[:-1][:4]:
        for k in (-1, 0, 1, 8):
            probes.append(min(1.0, max(0.0, c + k * 2.0 ** -52)))
    for t in probes:
        ctx.mon("point-walk")
        exp = _walk_expect(S, segs, lengths, t)
        if not exp:
            continue
        try:
            p = obj.point(t, error=e)
        except Exception as ex:
            ctx.violation("point-raises/%s" % type(ex).__name__, "%s.point(%r): %r" % (what, t, ex), monitor="point-walk")
            return
        if p is None:
            ctx.violation("point-returns-none", "%s.point(%r)" % (what, t), monitor="point-walk")
            return
        # a tiny fraction error is magnified by the segment's speed: allow the distance covered by 1e-9 of the total
        best = min(math.hypot(p.x - q[0], p.y - q[1]) for _, _, q in exp)
        tol = 1e-9 * S_ + 1e-8 * total
        if ctx.see("point-walk", best / tol) > 1:
            where = "near-1" if t > 1 - 1e-6 else ("near-0" if t < 1e-6 else ("boundary" if any(abs(t - c) < 1e-12 for c in cum) else "interior"))
            ctx.violation("point-walk-mismatch/%s" % where, "%s.point(%r) = %s, expected %s (segment index, fraction, point) from the cumulative lengths %s" % (what, t, (p.x, p.y), exp, cum), monitor="point-walk")
            return


def _run_path(S, case, ctx, path, fmt):
    e = case["error"]
    d0 = path.d(transformed=False)
    what = fmt % d0
    segs = list(path)
    ctx.mon("sum-of-segments")
    try:
        L = path.length(error=e)
    except Exception as ex:
        ctx.violation("length-raises/%s/Path" % type(ex).__name__, "%s.length(error=%g): %r" % (what, e, ex), monitor="sum-of-segments")
        return
    parts = [s.length(error=e) for s in segs]
    if abs(L - sum(parts)) > 1e-12 * max(1.0, abs(L)):
        ctx.violation("path-length-not-sum-of-segments", "%s.length() = %r, sum of its segments %r" % (what, L, sum(parts)), monitor="sum-of-segments")
        return
    for s in segs:
        if isinstance(s, S.Move) and s.length() != 0:
            ctx.violation("move-has-length", "%r.length() = %r" % (s, s.length()), monitor="sum-of-segments")
            return
    # against the quadrature, segment by segment (so that the classifier sees the kind)
    total_ref = 0.0
    for s in segs:
        if isinstance(s, S.Move):
            continue
        r = judge_length(S, ctx, s, e, "%r in %s" % (s, what))
        if r is None:
            return
        total_ref += r[1]
    _check_points(S, ctx, path, segs, e, case["ts"], what)
    # isometry of the whole path
    ctx.mon("isometry-invariance")
    M = tuple(case["iso"])
    p2 = abs(path * S.Matrix(*M))
    L2 = p2.length(error=e)
    tol = sum(_inv_tol(S, s, r_, e, 1.0, o) for s, r_, o in ((s, s.length(error=e), o) for s, o in zip(segs, p2) if not isinstance(s, S.Move)))
    S_ = max([1e-3] + [abs(v) for s in list(p2) + segs for p in s if p is not None for v in (p.x, p.y)])
    if abs(L2 - L) > tol + 1e-11 * S_ * len(segs):
        ctx.violation("not-isometry-invariant/Path", "%s: length %r, after the isometry Matrix%s %r" % (what, L, M, L2), monitor="isometry-invariance")
        return
    ctx.mon("reversal-invariance")
    p3 = copy(path)
    p3.reverse()
    p3._length = None  # a fresh measurement (the cache is the subject of the history stratum)
    p3._lengths = None
    try:
        L3 = p3.length(error=e)
    except Exception:
        return  # reversal itself is C16's subject
    if abs(L3 - L) > tol + 1e-11 * S_ * len(segs) and "Z" not in d0.upper().replace("Z", "Z")[:0]:
        # a non-zero close is re-drawn from the other end: same length
        ctx.note("reversed-path-length-differs (C16's subject)")


def _run_shape(S, case, ctx):
    shape = GG.build_shape(S, case["shape"])
    segs = list(shape.segments(transformed=False) or [])
    if not segs:
        return
    e = case["error"]
    what = "%r" % (case["shape"],)
    ctx.mon("sum-of-segments")
    L = shape.length(error=e)
    parts = [s.length(error=e) for s in segs]
    if abs(L - sum(parts)) > 1e-12 * max(1.0, abs(L)):
        ctx.violation("shape-length-not-sum-of-segments", "%s.length() = %r, sum of its segments %r" % (what, L, sum(parts)), monitor="sum-of-segments")
        return
    total_ref = 0.0
    for s in segs:
        if isinstance(s, S.Move):
            continue
        r = judge_length(S, ctx, s, e, "%r of %s" % (s, what))
        if r is None:
            return
        total_ref += r[1]
    if case["shape"]["kind"] in ("circle", "ellipse"):
        # round shapes walk by angle, not by length: point(t) is the point at the turn fraction t
        ctx.mon("point-endpoints")
        p0, p1 = shape.point(0.0), shape.point(1.0)
        f = segs[0].end
        if math.hypot(p0.x - f.x, p0.y - f.y) > 1e-9 * max(1.0, abs(f.x), abs(f.y)) or math.hypot(p1.x - f.x, p1.y - f.y) > 1e-9 * max(1.0, abs(f.x), abs(f.y)):
            ctx.violation("round-shape-point-endpoints", "%s: point(0)=%s point(1)=%s, start %s" % (what, (p0.x, p0.y), (p1.x, p1.y), (f.x, f.y)), monitor="point-endpoints")
        return
    _check_points(S, ctx, shape, segs, e, case["ts"], what)


def _run_history(S, case, ctx):
    path = GG.build_path(S, case["path"])
    e = case["error"]
    h = case["history"]
    d0 = path.d()
    ctx.mon("history")
    if h == "reverse-after-length":
        path.length(error=e)
        path.reverse()
        segs = list(path)
        _check_points_keyed(S, ctx, path, segs, e, case["ts"], "Path(%s) after length(); reverse()" % d0, "stale-lengths-after-reverse")
    elif h == "append-after-length":
        path.length(error=e)
        end = path[-1].end
        path.append(S.Line(S.Point(end.x, end.y), S.Point(end.x + 37.0, end.y - 11.0)))
        segs = list(path)
        L = path.length(error=e)
        if abs(L - sum(s.length(error=e) for s in segs)) > 1e-9 * max(1.0, L):
            ctx.violation("stale-length-after-append", "Path(%s): length() after append() = %r, sum of segments %r" % (d0, L, sum(s.length(error=e) for s in segs)), monitor="history")
            return
        _check_points_keyed(S, ctx, path, segs, e, case["ts"], "Path(%s) after length(); append(Line)" % d0, "stale-lengths-after-append")
    elif h == "segment-edit-via-setitem":
        path.length(error=e)
        idx = len(path) - 1
        last = path[idx]
        if isinstance(last, (S.Line, S.Close)) or last.start is None:
            return
        path[idx] = S.Line(S.Point(last.start.x, last.start.y), S.Point(last.start.x + 50.0, last.start.y + 50.0))
        segs = list(path)
        L = path.length(error=e)
        if abs(L - sum(s.length(error=e) for s in segs)) > 1e-9 * max(1.0, L):
            ctx.violation("stale-length-after-setitem", "Path(%s): length() after path[i] = Line = %r, sum of segments %r" % (d0, L, sum(s.length(error=e) for s in segs)), monitor="history")
    elif h == "coarse-then-fine":
        subdiv = [s for s in path if _uses_subdivision(S, s)]
        L1 = path.length(error=1e-2)
        L2 = path.length(error=1e-6)
        fresh = sum(s.length(error=1e-6) for s in path)
        if abs(L2 - fresh) > 1e-6 + 1e-9 * fresh:
            ctx.violation("length-cache-ignores-error", "Path(%s): length(error=1e-2) = %r, then length(error=1e-6) = %r although a fresh measurement gives %r" % (d0, L1, L2, fresh), monitor="history")
    else:
        M = tuple(case["M"])
        s = math.sqrt(abs(M[0] * M[3] - M[1] * M[2]))
        L0 = path.length(error=e)
        q = path * S.Matrix(*M)
        q._length = None
        q._lengths = None
        L1 = q.length(error=e)
        tol = (1 + s) * (max(e, 1e-9 * L0) * len(path) + sum(envelope(x.length(error=e), e) for x in path if _uses_subdivision(S, x)))
        if abs(L1 - s * L0) > tol + 1e-9 * s * L0:
            ctx.violation("unreified-transform-ignored/length", "Path(%s): length %r; (path * Matrix%s).length() = %r, its geometry has length %r" % (d0, L0, M, L1, s * L0), monitor="history")
            return
        t = 0.37
        p = q.point(t, error=e)
        w = path.point(t, error=e)
        ex = m_apply(M, (w.x, w.y))
        if math.hypot(p.x - ex[0], p.y - ex[1]) > 1e-6 * max(1.0, abs(ex[0]), abs(ex[1])):
            ctx.violation("unreified-transform-ignored/point", "(Path(%s) * Matrix%s).point(%r) = %s, the transformed path passes %s" % (d0, M, t, (p.x, p.y), ex), monitor="history")


def _check_points_keyed(S, ctx, obj, segs, e, ts, what, key):
    """as _check_points, but a mismatch is attributed to the history mechanism under test"""
    from ..ctx import Ctx

    sub = Ctx(ctx.prop_id, ctx.tier, ctx.seed)
    sub.begin_case(ctx.case_index, ctx.case)
    from .. import ctx as ctxmod

    ctxmod._ACTIVE[0] = ctx
    _check_points(S, sub, obj, segs, e, ts, what)
    for m, n in sub.monitors.items():
        ctx.mon(m, n)
    if sub.violations:
        k, rec = next(iter(sub.violations.items()))
        ctx.violation(key, rec["witnesses"][0]["detail"], monitor="history")
