"""C09 - path-data parsing is total: any string returns or raises ValueError only."""
import math

from .. import monitors, trace
from ..gen import pathdata as G
from ..gen.numbers import coord
from ..ref import pathref, pathscan
from . import c01

ID = "C09"
RULE = (
    "hostile path data: every prefix of conforming strings (complete truncation enumeration per seed string), one token "
    "deleted / duplicated / replaced by another token class, every command letter with every proper prefix of its argument "
    "list in three contexts (complete), wrong flag values, stray ASCII / control / non-ASCII characters, data without a "
    "current point, long and close-heavy inputs. Each string is parsed by the real Path().parse under an exception-type "
    "monitor and a LINE-event step counter; the retained segments are compared with the reference interpretation of the "
    "longest valid prefix (independent BNF scanner) and must survive d(), bbox(), length(), transform and reverse. "
    "evaluations counts strings parsed; non-trivial = the string is not grammar-conforming."
)
BUDGET = {"quick": 16000, "thorough": 400000}
TIME_CAP = {"quick": 240, "thorough": 1500}
MIN_PER_SHARD = 50
ANCHORS = c01.ANCHORS[:7]
REQUIRED_MONITORS = ["exception-type", "retained-prefix", "numeric-coordinates", "post-operations", "steps", "finite-coordinates"]

STEP_BASE = 20000
STEP_PER_CHAR = 400


def strata_minimum(tier):
    f = 1 if tier == "quick" else 20
    return {"truncation": 150 * f, "token-fault": 800 * f, "flag-fault": 200 * f, "stray-char": 600 * f, "no-current-point": 300 * f,
            "long": 20 * f, "close-chain": 8 * f if tier == "quick" else 60, "garbage": 200 * f, "extreme-number": 400 * f}


_steps = None


def setup(S, ctx, tier):
    global _steps
    _steps = trace.StepCounter()


def nontrivial(case):
    return True


STRAY = list("#$%&'()*;<=>?@[\\]^_`{|}~\"!:/") + ["\x00", "\x01", "\x07", "\x0b", "\x1b", "\x7f", " ", " ", "　",
                                                     "٣", "１", "Ｍ", "é", "ı", "K", "\U0001d7d8", "e", "E", "x", "N", "n", "i", "--", "++", "..", ",,", "1e", "e5", ".", "-", "+"]


EXTREME = ["1e999", "-1e999", "1e309", "1e308", "-1.7e308", "1e200", "-1e200", "1e160", "1e155", "1e-155", "1e-160", "1e-200", "-1e-200", "1e-320", "1e-999", "4.9e-324",
           "1e+999", "1E400", ".1e-400", "179769313486231570000000000000000000000000000000000000000000000000000000000000000000000000000000000000000000000000000000000000000000000000000000000000000000000000000000000000000000000000000000000000000000000000000000000000000000000000000000000000000000000000000000000000000000000000000000000"]


def _conforming(R, maxcmd=5):
    prog = G.program(R, maxcmd=maxcmd)
    return prog, G.spell_program(R, prog)


def gen_case(R, index, tier):
    k = R.random()
    if k < 0.06:
        prog, text = _conforming(R, 4)
        if len(text) > 120:
            prog, text = _conforming(R, 2)
        return {"stratum": "truncation", "text": text, "all_prefixes": True}
    if k < 0.40:
        prog, text = _conforming(R, 6)
        # token level faults on the plain spelling, re-spelled with separators kept simple
        toks = []
        for com in prog:
            toks.append(("cmd", com["c"]))
            toks += G.tokens(com, R)
        i = R.randrange(len(toks))
        how = R.choice(["delete", "duplicate", "replace-num", "replace-cmd", "replace-flag", "replace-z", "swap"])
        if how == "delete":
            del toks[i]
        elif how == "duplicate":
            toks.insert(i, toks[i])
        elif how == "replace-num":
            toks[i] = ("num", R.choice(["1", "-2.5", ".5", "1e3"]))
        elif how == "replace-cmd":
            toks[i] = ("cmd", R.choice(G.LETTERS))
        elif how == "replace-flag":
            toks[i] = ("flag", R.choice(["0", "1"]))
        elif how == "replace-z":
            toks[i] = ("z", "z")
        else:
            j = R.randrange(len(toks))
            toks[i], toks[j] = toks[j], toks[i]
        text = " ".join(t for _, t in toks)
        return {"stratum": "token-fault", "text": text, "how": how}
    if k < 0.48:
        a = [G.command(R, "M")] + [G.command(R, R.choice("LlCcQq")) for _ in range(R.randint(0, 2))]
        arc = G.command(R, R.choice("Aa"), zprob=0.2)
        toks = G.tokens(arc, R)
        flags = [i for i, (kd, _) in enumerate(toks) if kd == "flag"]
        i = R.choice(flags)
        toks[i] = ("flag", R.choice(["2", "9", "-1", "1.0", "+1", "0.5", "01x", "true", "", "10", "1e0", "٠"]))
        rest = [G.command(R, R.choice(G.LETTERS)) for _ in range(R.randint(0, 2))]
        text = G.spell_program(R, a) + " " + arc["c"] + " " + " ".join(t for _, t in toks) + " " + G.spell_program(R, rest)
        return {"stratum": "flag-fault", "text": text}
    if k < 0.70:
        prog, text = _conforming(R, 6)
        n = R.randint(1, 2)
        for _ in range(n):
            i = R.randint(0, len(text))
            text = text[:i] + R.choice(STRAY) + text[i:]
        return {"stratum": "stray-char", "text": text}
    if k < 0.84:
        # no current point: the data begins with something other than a move
        first = G.command(R, R.choice("LlHhVvCcSsQqTtAaZz"), zprob=0.1)
        rest = [G.command(R, R.choice(G.LETTERS)) for _ in range(R.randint(0, 3))]
        return {"stratum": "no-current-point", "text": G.spell_program(R, [first] + rest), "first": first["c"]}
    if k < 0.90:
        # one number replaced by a literal at the edge of the float range (overflow to infinity, underflow to zero, squares that overflow)
        prog, text = _conforming(R, 5)
        toks = []
        for com in prog:
            toks.append(("cmd", com["c"]))
            toks += G.tokens(com, R)
        nums = [i for i, (kd, _) in enumerate(toks) if kd == "num"]
        if nums:
            i = R.choice(nums)
            lit = R.choice(EXTREME)
            toks[i] = ("num", lit)
            return {"stratum": "extreme-number", "text": " ".join(t for _, t in toks), "literal": lit}
    if k < 0.96:
        alphabet = "MmZzLlHhVvCcSsQqTtAa0123456789.,-+eE \t\n"
        text = "".join(R.choice(alphabet) for _ in range(R.randint(1, 60)))
        if R.random() < 0.5:
            text = "M" + text
        return {"stratum": "garbage", "text": text}
    if k < 0.985:
        prog = G.program(R, maxcmd=8)
        unit = G.spell_program(R, prog)
        reps = max(1, (R.choice([2000, 8000, 20000]) if tier == "quick" else R.choice([20000, 80000, 200000])) // max(1, len(unit)))
        tail = R.choice(["", " L", " L 1", " h", " A 1 1 0 1", " #", " z 5", " C 1,2 3,4", " M"])
        return {"stratum": "long", "unit": unit, "reps": reps, "tail": tail}
    n = R.choice([200, 300, 500]) if tier == "quick" else R.choice([300, 800, 1500, 3000])
    unit = R.choice(["z", "Z", "L1,1z", "l1,0z", "h1z", "Q1,1 2,2z"])
    return {"stratum": "close-chain", "unit": unit, "reps": n, "head": "M0,0", "tail": R.choice(["", " L", " h"])}


def shrink_candidates(case):
    if "text" not in case or case.get("all_prefixes"):
        return
    t = case["text"]
    n = len(t)
    step = max(1, n // 8)
    while step >= 1:
        for i in range(0, n, step):
            c = dict(case)
            c["text"] = t[:i] + t[i + step:]
            if c["text"] != t:
                yield c
        step //= 2


def _text(case):
    if "text" in case:
        return case["text"]
    return case.get("head", "") + case["unit"] * case["reps"] + case["tail"]


def _numeric(v):
    return isinstance(v, (int, float)) and not isinstance(v, bool) and v == v and abs(v) != math.inf


MATRIX = (0.8, 0.6, -1.2, 1.6, 3.0, -4.0)


def examine(S, ctx, text, stratum, count_steps):
    """parse one string on the real class and judge everything the property states"""
    ctx.mon("exception-type")
    p = S.Path()
    raised = None
    steps = None
    limit = STEP_BASE + STEP_PER_CHAR * len(text)
    if count_steps:
        _steps.start(limit * 50)
    try:
        p.parse(text)
    except ValueError as e:
        raised = e
    except trace.StepLimit:
        steps = _steps.stop()
        ctx.violation("does-not-terminate-promptly/%s" % stratum, "parse of %d chars exceeded %d interpreter steps: %r..." % (len(text), limit * 50, text[:80]), monitor="steps")
        return
    except RecursionError as e:
        raised = e
        ctx.violation("non-ValueError/RecursionError", "parse(%r...)" % text[:120], monitor="exception-type")
    except Exception as e:
        raised = e
        if count_steps:
            _steps.stop()
        prog, err, partial = pathscan.scan_prefix(text, fragment=True, lenient=True)
        where = _where(text, prog, err)
        ctx.violation("non-ValueError/%s/%s" % (type(e).__name__, where), "Path().parse(%r) raised %s: %s" % (text[:300], type(e).__name__, e), monitor="exception-type")
    finally:
        if count_steps and steps is None:
            steps = _steps.stop()
    if count_steps:
        ctx.mon("steps")
        ctx.maxval("steps_per_char", steps / max(1, len(text)))
        ctx.see("steps-over-linear-bound", steps / limit)
        if steps > limit:
            closes = sum(1 for s_ in p if isinstance(s_, S.Close))
            moves = sum(1 for s_ in p if isinstance(s_, S.Move))
            if closes >= 100 and moves * 50 < closes:
                ctx.violation("superlinear/close-chain-without-moves", "%d chars, %d closes after %d moves: %d steps (linear bound %d)" % (len(text), closes, moves, steps, limit), monitor="steps")
            else:
                ctx.violation("superlinear/%s" % stratum, "%d chars: %d steps (linear bound %d): %r..." % (len(text), steps, limit, text[:80]), monitor="steps")

    # ---- what was retained ----
    begins_with_move = text.lstrip("\t \n\x0c\r")[:1] in ("M", "m")
    prog, err, partial = pathscan.scan_prefix(text, fragment=not begins_with_move, lenient=True)
    segs = list(p)
    if stratum == "extreme-number" or any(abs(v) > 1e9 for com in prog for g in com["g"] for v in g):
        # truncation and stray characters can glue digits together; magnitudes beyond the stated range
        # (and literals that overflow to infinity) are judged on exception type and termination only
        ctx.note("number-beyond-1e9 (out of scope for geometry: exception type, steps and finiteness of what is retained were judged)")
        ctx.mon("finite-coordinates")
        for i, seg in enumerate(segs):
            for n in ("start", "end", "control", "control1", "control2", "center", "prx", "pry"):
                v = getattr(seg, n, None)
                if v is not None and not (_numeric(v.x) and _numeric(v.y)):
                    how = "literal-overflows-to-infinity" if any(abs(v_) == math.inf for com in prog for g in com["g"] for v_ in g) else (
                        "arc-parameters-overflow" if isinstance(seg, S.Arc) and n in ("center", "prx", "pry") else "coordinate-arithmetic-overflows")
                    ctx.violation("non-finite-coordinate/%s" % how, "Path().parse(%r) retained segment %d %s with %s = %r" % (text[:300], i, type(seg).__name__, n, (v.x, v.y)), monitor="finite-coordinates")
                    return
        return
    ctx.mon("numeric-coordinates")
    bad_coord = None
    for i, seg in enumerate(segs):
        for j, pt in enumerate(seg):
            pass
        names = [n for n in ("start", "end", "control", "control1", "control2", "center", "prx", "pry") if hasattr(seg, n)]
        for n in names:
            v = getattr(seg, n)
            if v is None:
                if n == "start" and i == 0:
                    continue  # a leading segment has no predecessor
                bad_coord = (i, type(seg).__name__, n, None)
                break
            if not (_numeric(v.x) and _numeric(v.y)):
                bad_coord = (i, type(seg).__name__, n, (v.x, v.y))
                break
        if bad_coord:
            break
        if isinstance(seg, S.Arc) and not _numeric(seg.sweep):
            bad_coord = (i, "Arc", "sweep", seg.sweep)
            break
    if bad_coord:
        i, kind, n, v = bad_coord
        if not begins_with_move and i == 0:
            key = "no-current-point/%s/%s-is-None" % (kind, n)
        else:
            key = "non-numeric-coordinate/%s.%s/%s" % (kind, n, _where(text, prog, err))
        ctx.violation(key, "Path().parse(%r) retained segment %d %s with %s = %r" % (text[:300], i, kind, n, v), monitor="numeric-coordinates")

    if begins_with_move and not isinstance(raised, (TypeError, AttributeError, IndexError, RecursionError)) and len(text) <= 4000:
        ctx.mon("retained-prefix")
        cmp_prog = prog
        if partial and prog:
            cmp_prog = prog[:-1]
        try:
            exp = pathref.interpret(cmp_prog)
        except pathref.PathError as e:
            exp = e.segments
        got = segs if not partial else segs[:len(exp)]
        if partial:
            ctx.note("partial-z-completion-not-compared")
        if len(got) != len(exp) and not (partial and len(segs) >= len(exp)):
            where = _where(text, prog, err)
            kinds = "".join(type(s_).__name__[0] for s_ in segs)
            what = "more" if len(got) > len(exp) else "fewer"
            ctx.violation("retained-%s-than-valid-prefix/%s" % (what, where), "parse(%r): retained %d segments (%s), the longest valid prefix %r has %d (%s); raised=%r" % (
                text[:300], len(segs), kinds, text[:err] if err is not None else text, len(exp), "".join(e["k"] for e in exp), raised), monitor="retained-prefix")
        else:
            class _P(list):
                pass
            c01.compare_segments(S, ctx, _P(got), exp, "parse(%r)" % text[:200], monitor="retained-prefix")

    # ---- the result must be usable ----
    if bad_coord and (begins_with_move or True):
        pass
    ctx.mon("post-operations")
    # the length error is relative to the size of the coordinates: the library's subdivision never reaches an
    # absolute 1e-3 on coordinates of 1e15 (a stray character can glue digits together) - magnitude is C15's subject
    big = max([1.0] + [abs(v) for s_ in segs for pt in s_ if pt is not None for v in (pt.x, pt.y) if _numeric(v)])
    ops = [
        ("d", lambda: p.d()),
        ("d-relative", lambda: p.d(relative=True)),
        ("str", lambda: str(p)),
        ("bbox", lambda: p.bbox()),
        ("length", lambda: p.length(error=1e-3 * big, min_depth=3)),
        ("transform", lambda: abs(p * S.Matrix(*MATRIX))),
        ("reverse", lambda: S.Path(*[_c(s_) for s_ in p]).reverse()),
    ]
    if len(segs) > 3000:
        ops = ops[:4]
    for name, f in ops:
        try:
            f()
        except RecursionError as e:
            ctx.violation("post-op-fails/%s/RecursionError" % name, "after parse(%r...): %s" % (text[:120], name), monitor="post-operations")
        except Exception as e:
            if bad_coord:
                continue  # consequence of the coordinate already reported
            if not begins_with_move and segs and segs[0].start is None and not isinstance(segs[0], S.Move):
                key = "no-current-point/%s/%s-fails" % (type(segs[0]).__name__, name)
            else:
                key = "post-op-fails/%s/%s" % (name, type(e).__name__)
            ctx.violation(key, "after Path().parse(%r) [%s]: %s() raised %s: %s" % (text[:300], "".join(type(s_).__name__[0] for s_ in segs)[:40], name, type(e).__name__, e), monitor="post-operations")
            break


def _c(seg):
    from copy import copy

    return copy(seg)


def _where(text, prog, err):
    """mechanism feature of the failing spot: the command in progress and what it lacks"""
    if err is None:
        return "conforming"
    j = err
    cmd = None
    # the last command letter before the error position
    for i in range(min(err, len(text) - 1), -1, -1):
        ch = text[i]
        if ch in G.LETTERS and not (ch in "eE" and i > 0 and text[i - 1] in "0123456789."):
            cmd = ch
            break
    nxt = text[err:err + 1]
    if nxt == "":
        what = "operand-missing-at-end"
    elif nxt in G.LETTERS:
        what = "operand-missing"
    elif nxt in "0123456789.+-":
        what = "surplus-number"
    else:
        what = "stray-char"
    if not prog:
        return "cmd=%s/%s/no-current-point" % (cmd, what)
    return "cmd=%s/%s" % (cmd, what)


def run_case(S, case, ctx):
    text = _text(case)
    st = case["stratum"]
    if case.get("all_prefixes"):
        for i in range(len(text) + 1):
            examine(S, ctx, text[:i], st, count_steps=(i % 7 == 0))
        return
    examine(S, ctx, text, st, count_steps=st in ("long", "close-chain") or (ctx.evaluations % 5 == 0))


def exhaustive(S, ctx, tier, shard, nshards):
    """every command letter with every proper prefix of its argument list, in three contexts"""
    if shard != 0:
        return {}
    n = 0
    args = {"m": "1 2", "l": "3 4", "h": "5", "v": "6", "c": "1 2 3 4 5 6", "s": "1 2 3 4", "q": "1 2 3 4", "t": "7 8", "a": "5 6 30 1 0 9 8", "z": ""}
    for ctxname, head in (("start", ""), ("after-move", "M1,2 "), ("after-close", "M1,2 L3,4 z "), ("after-curve", "M0,0 Q1,1 2,2 ")):
        for L in G.LETTERS:
            toks = args[L.lower()].split()
            for k in range(0, len(toks) + 1):
                for tail in ("", " z", " L9,9"):
                    text = head + L + " " + " ".join(toks[:k]) + tail
                    ctx.begin_case(-3, {"stratum": "command-x-argument-prefix", "text": text})
                    examine(S, ctx, text, "command-x-argument-prefix", count_steps=False)
                    ctx.end_case(True)
                    n += 1
    return {"command-letter x argument-prefix x context x tail": n}
