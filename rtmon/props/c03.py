"""C03 - parsed documents give each rendered shape its spec-defined absolute geometry."""
import copy

from .. import docmon as DM
from ..gen import documents as GD
from ..gen import transforms as GT
from ..ref import docref

ID = "C03"
RULE = (
    "documents generated from the supported vocabulary (svg, g, defs, use incl. use of groups, of shapes outside defs and nested "
    "use, the seven shape kinds, nested svg with x/y/width/height/viewBox/preserveAspectRatio), depth up to 4 (thorough 7), a "
    "transform list on any element, attributes as plain numbers, unit-bearing lengths (px pt pc in cm mm) or percentages, "
    "defaulted attributes omitted, display:none subtrees, unreferenced definitions; configurations: reify in {True, False} "
    "(both, every document), ppi in {72, 96, 100, 254}, caller width/height absent / number / length text, caller transform "
    "absent or a random list. Every rendered shape is compared segment by segment (five points each) with the reference "
    "evaluation of the same abstract document (ref/docref.py); order, count and ids of the rendered shapes are compared as "
    "lists. Non-trivial = the document renders at least two shapes."
)
BUDGET = {"quick": 12000, "thorough": 400000}
TIME_CAP = {"quick": 240, "thorough": 1700}
ANCHORS = ["SVG._use_structure_parse", "SVG.parse", "Use.property_by_values", "SVG.render", "SVG.property_by_values", "Viewbox.transform", "Rect.render", "_RoundShape.render",
           "SimpleLine.render", "Rect.property_by_values", "_RoundShape.property_by_values", "SimpleLine.property_by_values", "_Polyshape.property_by_values",
           "Transformable.property_by_values", "Group.render", "Shape.reify"]
REQUIRED_MONITORS = ["rendered-list", "geometry-reified", "geometry-unreified", "reify-vs-lazy", "not-rendered-content"]

STRATA = ["plain", "units", "nested-svg", "use", "deep", "config"]


def strata_minimum(tier):
    f = 1 if tier == "quick" else 40
    return {s: 1500 * f for s in STRATA}


def nontrivial(case):
    return case.get("rendered", 2) >= 2


def gen_config(R, rich):
    c = {"ppi": 96.0}
    if not rich:
        return c
    c["ppi"] = R.choice([72.0, 96.0, 100.0, 254.0])
    k = R.random()
    if k < 0.5:
        w, h = float(R.randint(50, 800)), float(R.randint(50, 800))
        if R.random() < 0.4:
            u = R.choice(["px", "in", "cm", "mm", "pt", "pc"])
            f = {"px": 1.0, "pt": 4.0 / 3.0, "pc": 16.0, "in": c["ppi"], "cm": c["ppi"] / 2.54, "mm": c["ppi"] / 25.4}[u]
            c["width"], c["height"] = [round(w / f, 3), u], [round(h / f, 3), u]
        else:
            c["width"], c["height"] = [w, ""], [h, ""]
            c["size_as_text"] = R.random() < 0.3
        if R.random() < 0.3:
            # only one of the two is given by the caller
            c.pop(R.choice(["width", "height"]))
    if R.random() < 0.5:
        fns = [GT.fn(R, R.choice(["translate", "scale", "rotate", "matrix", "skewx", "scale1"])) for _ in range(R.randint(1, 2))]
        c["transform"], c["tftext"] = fns, GT.spell_list(R, fns)
    return c


def gen_case(R, index, tier):
    st = STRATA[index % len(STRATA)]
    deep = tier == "thorough"
    opts = {"units": 0.0, "percent": 0.0, "nested_svg": 0.0, "use": 0.0, "hidden": 0.1, "depth": 2}
    if st == "units":
        opts.update(units=0.35, percent=0.25)
    elif st == "nested-svg":
        opts.update(nested_svg=0.8, percent=0.15, units=0.1, depth=3)
    elif st == "use":
        opts.update(use=0.9, depth=3)
    elif st in ("deep", "config"):
        opts.update(units=0.2, percent=0.15, nested_svg=0.35, use=0.5, depth=7 if deep else 4, max_children=3)
    doc = GD.generate(R, opts)
    cfg = gen_config(R, st == "config")
    if st == "config" and ("width" in cfg or "height" in cfg) and R.random() < 0.5:
        # the outermost size comes from the caller
        for k in ("width", "height"):
            if k not in cfg:
                continue
            if R.random() < 0.7:
                doc["geom"].pop(k, None)
            elif R.random() < 0.5:
                doc["geom"][k] = [float(R.choice([50, 100, 25])), "%"]
    return {"stratum": st, "doc": doc, "cfg": cfg}


def shrink_candidates(case):
    doc = case["doc"]
    # drop one subtree
    for n in GD.walk(doc):
        if n is doc:
            continue
        c = copy.deepcopy(case)
        c["doc"] = GD.remove_ids(doc, {n["id"]})
        yield c
    # drop a transform / an attribute / the configuration
    for n in GD.walk(doc):
        if n.get("tf"):
            c = copy.deepcopy(case)
            m = GD.find(c["doc"], n["id"])
            m["tf"], m["tftext"] = None, None
            yield c
        for k, l in n.get("geom", {}).items():
            if l[1] != "":
                c = copy.deepcopy(case)
                GD.find(c["doc"], n["id"])["geom"][k] = [l[0], ""]
                yield c
    if case["cfg"] != {"ppi": 96.0}:
        c = copy.deepcopy(case)
        c["cfg"] = {"ppi": 96.0}
        yield c


def features_key(inst):
    return "+".join(sorted(inst["features"])) or "plain"


def classify(inst, what):
    return "%s/%s/%s" % (what, inst["tag"], features_key(inst))


def check_document(S, ctx, case, xml=None, monitors=("geometry-reified", "geometry-unreified")):
    """parse with reify True and False, compare both with the reference.  -> (expected instances, {reify: shapes})"""
    doc, cfg = case["doc"], case["cfg"]
    xml = xml or GD.to_xml(doc)
    rcfg = DM.cfg_of(cfg)
    rcfg.metric = any(cfg.get(k) and cfg[k][1] in ("cm", "mm") for k in ("width", "height"))
    exp = docref.evaluate(doc, rcfg)
    case["rendered"] = len(exp)
    ctx.maxval("rendered shapes per document", len(exp))
    ctx.maxval("instance depth", max([len(i["chain"]) for i in exp] + [0]))
    for i in exp:
        ctx.note("instance " + i["tag"])
        for f in i["features"]:
            ctx.note("feature " + f)
    got = {}
    for reify in (True, False):
        mon = monitors[0] if reify else monitors[1]
        kw = DM.parse_kwargs(cfg, reify)
        try:
            svg = DM.parse(S, xml, kw)
            shapes = DM.shapes(S, svg)
            geo = [DM.lib_geometry(S, s) for s in shapes]
        except Exception as e:
            ctx.violation("raises/%s" % type(e).__name__, "SVG.parse(%s, %s): %r" % (xml, kw, e), monitor="rendered-list")
            return exp, None
        got[reify] = (shapes, geo)
        ctx.mon("rendered-list")
        want_ids = [(i["tag"], i["id"]) for i in exp]
        have_ids = [(DM.tag_of(s), s.id) for s in shapes]
        ctx.mon("not-rendered-content")
        if want_ids != have_ids:
            ws, hs = set(want_ids), set(have_ids)
            extra = [x for x in have_ids if x not in ws]
            missing = [x for x in want_ids if x not in hs]
            if extra:
                n = GD.find(doc, extra[0][1])
                where = _why_hidden(doc, extra[0][1])
                ctx.violation("rendered-list/extra/%s" % where, "reify=%s: %s is rendered but %s; document %s" % (reify, extra[0], where, xml), monitor="not-rendered-content")
            elif missing:
                inst = [i for i in exp if (i["tag"], i["id"]) == missing[0]][0]
                ctx.violation("rendered-list/missing/%s/%s" % (inst["tag"], features_key(inst)), "reify=%s: %s is not rendered; document %s" % (reify, missing[0], xml), monitor="rendered-list")
            elif sorted(want_ids) == sorted(have_ids):
                ctx.violation("rendered-list/order", "reify=%s: shapes come out as %s, document order is %s; document %s" % (reify, have_ids, want_ids, xml), monitor="rendered-list")
            else:
                ctx.violation("rendered-list/multiplicity", "reify=%s: shapes %s, expected %s; document %s" % (reify, have_ids, want_ids, xml), monitor="rendered-list")
            return exp, None
        for inst, s, g in zip(exp, shapes, geo):
            ctx.mon(mon)
            ok, what, detail = DM.compare(S, ctx, inst, g, mon, inst["id"])
            if not ok:
                ctx.violation(classify(inst, what), "reify=%s, %s: %s #%s (chain %s): %s; document %s" % (reify, kw, inst["tag"], inst["id"], inst["chain"], detail, xml), monitor=mon)
                return exp, None
    return exp, got


def _why_hidden(doc, i):
    """where an element that must not be rendered sits"""
    def rec(n, state):
        if n.get("attrs", {}).get("display") == "none":
            state = "inside-display-none"
        elif n["tag"] == "defs" and state == "rendered":
            state = "inside-defs"
        if n.get("id") == i:
            return state
        for c in n.get("children", []):
            r = rec(c, state)
            if r:
                return r
        return None
    return rec(doc, "rendered") or "unknown-id"


def run_case(S, case, ctx):
    exp, got = check_document(S, ctx, case)
    if got is None:
        return
    # metamorphic: reified and lazy parses agree with each other (tighter than each against the reference)
    ctx.mon("reify-vs-lazy")
    (sa, ga), (sb, gb) = got[True], got[False]
    for inst, a, b in zip(exp, ga, gb):
        ok, what, detail = DM.compare(S, ctx, inst, a, "reify-vs-lazy", inst["id"], other=b, rel=1e-9)
        if not ok:
            ctx.violation("reify-vs-lazy/%s/%s/%s" % (what, inst["tag"], features_key(inst)), "%s #%s: reified and lazy parses differ: %s; document %s" % (
                inst["tag"], inst["id"], detail, GD.to_xml(case["doc"])), monitor="reify-vs-lazy")
            return
