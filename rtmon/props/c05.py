"""C05 - endpoint-form arcs are the arcs of SVG implementation note F.6."""
import math

from ..gen.numbers import coord, spell
from ..num import b_arcsolve, b_exact, dist
from ..ref import arcref

ID = "C05"
RULE = (
    "endpoint-form arcs (start, rx, ry, rotation, large-arc, sweep, end) stratified by radius/chord ratio (1e-3 .. 1e3 incl. "
    "exactly 0.5), rotation class (multiples of 90, +-30, beyond +-360, random), all four flag pairs, zero / negative radii, "
    "coincident endpoints, axis-aligned chords; each built through Arc(...), Arc(complex form) and Path('M.. A..') absolute, "
    "relative and z-completed, and compared pointwise with an independent F.6.5/F.6.6 implementation. Non-trivial = a real arc "
    "(non-degenerate) or a degenerate class named by the property; distinct = distinct parameter tuple."
)
BUDGET = {"quick": 24000, "thorough": 1200000}
TIME_CAP = {"quick": 240, "thorough": 1500}
ANCHORS = ["Arc.__init__", "Arc._svg_parameterize", "Arc._svg_complex_parameterize", "Path.arc", "Arc.npoint", "Arc.point_at_t",
           "Arc.get_start_t", "Arc.t_at_point", "Arc.length", "Arc.bbox"]
REQUIRED_MONITORS = ["endpoints-exact", "pointwise-F6", "flags", "radii-rotation", "coincident-endpoints", "zero-radius"]

T17 = [i / 16.0 for i in range(17)]
RATIOS = [1e-3, 0.1, 0.499, 0.5, 0.501, 1.0, 10.0, 1e3]


def strata_minimum(tier):
    f = 1 if tier == "quick" else 20
    d = {"ratio-%g" % r: 300 * f for r in RATIOS}
    d.update({"tiny-scale": 300 * f, "zero-radius": 300 * f, "negative-radius": 300 * f, "coincident": 200 * f, "axis-chord": 200 * f, "generic": 1500 * f})
    return d


def nontrivial(case):
    return True


def _rot(R):
    return R.choice([0.0, 90.0, 180.0, 270.0, -90.0, 30.0, -30.0, 45.0, 360.0, 400.0, -725.0, 1080.0 + 17.5, round(R.uniform(-360, 360), 3), R.uniform(-720, 720)])


def gen_case(R, index, tier):
    k = R.random()
    x1, y1 = coord(R), coord(R)
    fa, fs = R.randint(0, 1), R.randint(0, 1)
    rot = _rot(R)
    if k < 0.06:
        # the low end of the stated coordinate range: everything of magnitude 1e-3
        st = "tiny-scale"
        sc = 10 ** R.uniform(-3, -2)
        x1, y1 = R.uniform(-2, 2) * sc, R.uniform(-2, 2) * sc
        chord = R.uniform(0.5, 2) * sc
        ang = R.uniform(0, 2 * math.pi)
        x2, y2 = x1 + chord * math.cos(ang), y1 + chord * math.sin(ang)
        rx = chord * R.choice([0.3, 0.5, 0.6, 1.0, 2.0, R.uniform(0.2, 5)])
        ry = rx * R.choice([1.0, 1.0, 0.5, 2.0, R.uniform(0.2, 5)])
    elif k < 0.45:
        ratio = RATIOS[index % len(RATIOS)]
        st = "ratio-%g" % ratio
        chord = R.choice([1.0, 10.0, R.uniform(0.5, 200), 10 ** R.uniform(-2, 4)])
        ang = R.uniform(0, 2 * math.pi)
        x2, y2 = x1 + chord * math.cos(ang), y1 + chord * math.sin(ang)
        rx = chord * ratio
        ry = rx * R.choice([1.0, 1.0, 0.5, 2.0, R.uniform(0.01, 100), R.uniform(0.3, 3)])
        if ratio == 0.5 and R.random() < 0.5:
            # exactly a half turn: the chord is a diameter of a circle
            ry = rx
            x2, y2 = x1 + chord, y1
            rx = ry = chord / 2.0
    elif k < 0.55:
        st = "zero-radius"
        x2, y2 = coord(R), coord(R)
        if x2 == x1 and y2 == y1:
            x2 += 1.0
        rx, ry = R.choice([(0.0, 5.0), (5.0, 0.0), (0.0, 0.0), (0.0, R.uniform(0.1, 50)), (-0.0, 3.0)])
    elif k < 0.65:
        st = "negative-radius"
        x2, y2 = coord(R), coord(R)
        if x2 == x1 and y2 == y1:
            x2 += 1.0
        rx, ry = R.uniform(0.5, 80), R.uniform(0.5, 80)
        s = R.choice([(-1, 1), (1, -1), (-1, -1)])
        rx, ry = s[0] * rx, s[1] * ry
    elif k < 0.70:
        st = "coincident"
        x2, y2 = x1, y1
        rx, ry = R.uniform(0.5, 80), R.uniform(0.5, 80)
    elif k < 0.77:
        st = "axis-chord"
        d = R.choice([1.0, 7.5, R.uniform(0.1, 300)]) * R.choice([-1, 1])
        x2, y2 = (x1 + d, y1) if R.random() < 0.5 else (x1, y1 + d)
        rx, ry = R.uniform(0.05, 3) * abs(d), R.uniform(0.05, 3) * abs(d)
    else:
        st = "generic"
        x2, y2 = coord(R), coord(R)
        if x2 == x1 and y2 == y1:
            y2 -= 2.5
        rx, ry = R.choice([float(R.randint(1, 40)), R.uniform(0.1, 500), 10 ** R.uniform(-2, 4)]), R.choice([float(R.randint(1, 40)), R.uniform(0.1, 500)])
    route = R.choice(["ctor", "ctor", "complex", "path-abs", "path-rel", "path-z", "kwargs"])
    if route == "complex" and st in ("negative-radius",):
        route = "ctor"
    return {"stratum": st, "arc": [x1, y1, rx, ry, rot, fa, fs, x2, y2], "route": route}


def shrink_candidates(case):
    a = case["arc"]
    for i in (0, 1, 7, 8, 2, 3, 4):
        b = list(a)
        b[i] = float(round(a[i]))
        if b != a:
            yield {"stratum": case["stratum"], "arc": b, "route": case["route"]}
    if case["route"] != "ctor":
        yield {"stratum": case["stratum"], "arc": a, "route": "ctor"}


def build(S, case):
    x1, y1, rx, ry, rot, fa, fs, x2, y2 = case["arc"]
    r = case["route"]
    if r == "ctor":
        return S.Arc((x1, y1), rx, ry, rot, fa, fs, (x2, y2)), (x1, y1), (x2, y2)
    if r == "complex":
        return S.Arc(complex(x1, y1), complex(rx, ry), rot, fa, fs, complex(x2, y2)), (x1, y1), (x2, y2)
    if r == "kwargs":
        return S.Arc(start=complex(x1, y1), radius=complex(rx, ry), rotation=rot, arc_flag=fa, sweep_flag=fs, end=complex(x2, y2)), (x1, y1), (x2, y2)
    n = lambda v: repr(float(v))
    if r == "path-abs":
        p = S.Path("M%s,%s A%s %s %s %d %d %s,%s" % (n(x1), n(y1), n(rx), n(ry), n(rot), fa, fs, n(x2), n(y2)))
        return p[1], (x1, y1), (x2, y2)
    if r == "path-rel":
        dx, dy = x2 - x1, y2 - y1
        p = S.Path("M%s,%s a%s,%s,%s,%d%d%s,%s" % (n(x1), n(y1), n(rx), n(ry), n(rot), fa, fs, n(dx), n(dy)))
        return p[1], (x1, y1), (x1 + dx, y1 + dy)
    # z-completed: the arc returns to the subpath start (x2, y2); it begins at (x1, y1)
    p = S.Path("M%s,%s L%s,%s A%s %s %s %d %d z" % (n(x2), n(y2), n(x1), n(y1), n(rx), n(ry), n(rot), fa, fs))
    return p[2], (x1, y1), (x2, y2)


def run_case(S, case, ctx):
    x1, y1, rx, ry, rot, fa, fs, x2, y2 = case["arc"]
    st = case["stratum"]
    try:
        arc, start, end = build(S, case)
    except Exception as e:
        ctx.violation("construction-raises/%s/%s" % (type(e).__name__, st), "%s %s: %r" % (case["route"], case["arc"], e), monitor="endpoints-exact")
        return
    if not isinstance(arc, S.Arc):
        ctx.violation("not-an-arc/%s" % st, "%s %s gave %r" % (case["route"], case["arc"], arc), monitor="endpoints-exact")
        return
    x2, y2 = end
    what = "%s%s" % (case["route"], tuple(case["arc"]))
    S_ = max(1e-3, abs(x1), abs(y1), abs(x2), abs(y2))
    chord = math.hypot(x2 - x1, y2 - y1)
    # starts and ends exactly at the given points
    ctx.mon("endpoints-exact")
    p0, p1 = arc.point(0), arc.point(1)
    if (p0.x, p0.y) != (x1, y1) or (p1.x, p1.y) != (x2, y2):
        ctx.violation("endpoints-not-exact/%s" % st, "%s: point(0)=%s point(1)=%s, given %s %s" % (what, (p0.x, p0.y), (p1.x, p1.y), (x1, y1), (x2, y2)), monitor="endpoints-exact")
        return
    ref = arcref.endpoint_to_centre(x1, y1, rx, ry, rot, fa, fs, x2, y2)
    if ref is None and x1 == x2 and y1 == y2:
        ctx.mon("coincident-endpoints")
        bad = None
        for t in (0.25, 0.5, 0.9):
            p = arc.point(t)
            if (p.x, p.y) != (x1, y1):
                bad = "point(%g)=%s" % (t, (p.x, p.y))
        try:
            L = arc.length()
            if L != 0:
                bad = "length()=%r" % L
            bb = arc.bbox()
            if tuple(bb) != (x1, y1, x1, y1):
                bad = "bbox()=%r" % (bb,)
        except Exception as e:
            bad = "%s raised %r" % ("length/bbox", e)
        if bad:
            ctx.violation("coincident-endpoints-draw-something", "%s: %s" % (what, bad), monitor="coincident-endpoints")
        return
    if ref is None:
        # a zero radius: the straight line between the endpoints
        ctx.mon("zero-radius")
        b = b_exact(S_) * 4
        for t in T17:
            p = arc.point(t)
            e = (x1 + t * (x2 - x1), y1 + t * (y2 - y1))
            if ctx.see("zero-radius-points", math.hypot(p.x - e[0], p.y - e[1]) / b) > 1:
                ctx.violation("zero-radius/points-not-on-chord", "%s: point(%g)=%s, the chord point is %s" % (what, t, (p.x, p.y), e), monitor="zero-radius")
                return
        try:
            L = arc.length(error=1e-9)
        except Exception as e:
            ctx.violation("zero-radius/length-raises/%s" % type(e).__name__, "%s: %r" % (what, e), monitor="zero-radius")
            return
        if abs(L - chord) > 1e-9 * chord + b:
            ctx.violation("zero-radius/length-not-chord", "%s: length()=%r, chord %r" % (what, L, chord), monitor="zero-radius")
            return
        try:
            bb = tuple(arc.bbox())
        except Exception as e:
            ctx.violation("zero-radius/bbox-raises/%s" % type(e).__name__, "%s: %r" % (what, e), monitor="zero-radius")
            return
        eb = (min(x1, x2), min(y1, y2), max(x1, x2), max(y1, y2))
        if max(abs(a - c) for a, c in zip(bb, eb)) > b:
            ctx.violation("zero-radius/bbox-not-chord-box", "%s: bbox()=%s, the chord's box is %s" % (what, bb, eb), monitor="zero-radius")
        return
    # a real arc
    ctx.mon("pointwise-F6")
    size = max(ref.rx, ref.ry, chord)
    bound = b_arcsolve(size, S_)
    worst, worst_t = 0.0, None
    for t in T17:
        p = arc.point(t)
        q = ref.point(t)
        d = math.hypot(p.x - q[0], p.y - q[1])
        if d > worst:
            worst, worst_t = d, t
    if ctx.see("arc-points", worst / bound) > 1:
        neg = "negative-radii" if (rx < 0 or ry < 0) else "flags=%d%d" % (fa, fs)
        scaled = "scaled-up" if ref.scaled else "radii-sufficient"
        ctx.violation("arc-geometry/%s/%s" % (neg, scaled), "%s: point(%g) deviates from the F.6 arc by %.3g (bound %.3g, size %.3g); library sweep=%r, F.6 extent=%r" % (
            what, worst_t, worst, bound, size, arc.sweep, ref.dtheta), monitor="pointwise-F6")
        return
    # direction and extent
    ctx.mon("flags")
    sw = arc.sweep
    band = abs(abs(ref.dtheta) - math.pi) < 1e-7
    if (sw > 0) != bool(fs) and abs(sw) > 1e-12:
        ctx.violation("sweep-direction/flags=%d%d" % (fa, fs), "%s: sweep=%r but sweep flag %d" % (what, sw, fs), monitor="flags")
        return
    if not band and (abs(sw) > math.pi) != bool(fa):
        ctx.violation("large-arc/flags=%d%d" % (fa, fs), "%s: |sweep|=%r but large-arc flag %d" % (what, abs(sw), fa), monitor="flags")
        return
    if abs(sw - ref.dtheta) > 1e-6 and not band:
        ctx.violation("sweep-extent/flags=%d%d" % (fa, fs), "%s: sweep=%r, F.6 extent %r" % (what, sw, ref.dtheta), monitor="flags")
        return
    # radii and rotation of the stored form
    ctx.mon("radii-rotation")
    rb = 1e-9 * size + 1e-12 * S_
    if ctx.see("radii", max(abs(arc.rx - ref.rx), abs(arc.ry - ref.ry)) / (rb * 1e3)) > 1:
        ctx.violation("radii/%s" % ("scaled-up" if ref.scaled else "radii-sufficient"), "%s: rx, ry = %r, %r; F.6 gives %r, %r" % (what, arc.rx, arc.ry, ref.rx, ref.ry), monitor="radii-rotation")
        return
    got_rot = float(arc.get_rotation()) % math.pi
    want = ref.phi % math.pi
    dr = abs(got_rot - want)
    dr = min(dr, math.pi - dr)
    if abs(ref.rx - ref.ry) > 1e-6 * size and dr > 1e-7:
        ctx.violation("rotation", "%s: get_rotation()=%r, given %r deg" % (what, float(arc.get_rotation()), rot), monitor="radii-rotation")
        return
    # every point lies on the ellipse (independent of the parameterisation)
    ctx.mon("on-ellipse")
    c, s = math.cos(ref.phi), math.sin(ref.phi)
    for t in (0.1, 0.37, 0.5, 0.77, 0.93):
        p = arc.point(t)
        u = c * (p.x - ref.cx) + s * (p.y - ref.cy)
        v = -s * (p.x - ref.cx) + c * (p.y - ref.cy)
        val = math.hypot(u / ref.rx, v / ref.ry)
        if ctx.see("ellipse-equation", abs(val - 1.0) / (1e-6 + 1e-9 * S_ / min(ref.rx, ref.ry))) > 1:
            ctx.violation("off-ellipse", "%s: point(%g)=%s has ellipse radius %r" % (what, t, (p.x, p.y), val), monitor="on-ellipse")
            return
