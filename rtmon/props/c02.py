"""C02 - affine maps commute with geometry for every segment, path and shape."""
import math
from copy import copy

from .. import monitors
from ..gen import geometry as GG
from ..gen import transforms as GT
from ..num import b_affine, m_apply, m_cond, m_det, m_mul, m_norm, m_of

ID = "C02"
RULE = (
    "segments of every kind and degeneracy class (lines, quadratic/cubic Beziers incl. zero-length, coincident and collinear "
    "controls, cusps; arcs in endpoint and centre form incl. scaled-up radii, half turn, near-full and multi-turn, circular, "
    "eccentric), paths, subpaths and basic shapes, crossed with invertible matrices of ten classes (identity .. general, both "
    "determinant signs, cond <= 400); X*M, X*=M, abs(X*M), reify and (X*A)*B are executed on the real objects and every sampled "
    "point (17 t values incl. 0 and 1, control points) is compared with the matrix image of the original's point. "
    "Non-trivial = matrix is not the identity; distinct = distinct (object, matrix) digest."
)
BUDGET = {"quick": 12000, "thorough": 500000}
TIME_CAP = {"quick": 240, "thorough": 1500}
ANCHORS = ["Point.__imul__", "Point.__mul__", "Matrix.point_in_matrix_space", "Move.__imul__", "Linear.__imul__", "QuadraticBezier.__imul__",
           "CubicBezier.__imul__", "Arc.__imul__", "Path.reify", "Transformable.__mul__", "Transformable.__imul__", "Transformable.__abs__",
           "Rect.segments", "_RoundShape.segments", "SimpleLine.segments", "_Polyshape.segments", "Subpath.__imul__", "PathSegment.__mul__"]
REQUIRED_MONITORS = ["segment-times-matrix", "segment-imul", "composition", "path-times-matrix", "shape-times-matrix", "subpath-imul", "segment-imul-hook", "path-internal-alias"]

T17 = [i / 16.0 for i in range(17)]
T5 = [0.0, 0.25, 0.5, 0.75, 1.0]
MCLASSES = ["identity", "translate", "rotate", "uniform", "reflect", "aniso", "rot-aniso", "aniso-rot", "shear", "general", "general-neg", "extreme"]


def strata_minimum(tier):
    f = 1 if tier == "quick" else 20
    d = {"segment/%s" % k: 400 * f for k in ("L", "Q", "C", "A")}
    d.update({"path": 800 * f, "subpath": 200 * f, "shape": 1000 * f})
    return d


def setup(S, ctx, tier):
    monitors.install_imul_monitor(S)


def nontrivial(case):
    return case["mclass"] != "identity"


def gen_case(R, index, tier):
    mclass = MCLASSES[index % len(MCLASSES)]
    _, M = GT.affine(R, mclass)
    _, B = GT.affine(R)
    k = R.random()
    case = {"mclass": mclass, "M": list(M), "B": list(B)}
    if k < 0.5:
        kind = "LQCAA"[(index // 10) % 5]
        spec, st = GG.segment(R, kind)
        case.update({"stratum": "segment/%s" % kind, "seg": spec, "segclass": st})
    elif k < 0.72:
        case.update({"stratum": "path", "path": GG.path(R, maxseg=4), "linked_by_append": R.random() < 0.35})
        if not case["linked_by_append"] and R.random() < 0.5:
            case["joined"] = R.choice(["iadd", "add", "extend", "insert-delete"])
            case["join_at"] = R.randint(0, 20)
    elif k < 0.78:
        case.update({"stratum": "subpath", "path": GG.path(R, nsub=R.randint(2, 3), maxseg=3), "which": R.randint(0, 2)})
    else:
        case.update({"stratum": "shape", "shape": GG.shape_spec(R)})
        if R.random() < 0.5:
            case["pre"] = list(GT.affine(R)[1])
    return case


def shrink_candidates(case):
    if "path" in case:
        p = case["path"]
        for i in range(len(p) - 1, 0, -1):
            if p[i]["k"] != "M":
                continue
        for i in range(len(p) - 1, 0, -1):
            c = dict(case)
            c["path"] = p[:i] + p[i + 1:]
            # keep the chain connected: only drop trailing pieces
            if i == len(p) - 1:
                yield c
    M = case["M"]
    r = [float(round(v, 1)) for v in M]
    if r != M and abs(r[0] * r[3] - r[1] * r[2]) > 1e-3:
        c = dict(case)
        c["M"] = r
        yield c


def _pts(seg, S, ts):
    """sampled points and defining points of a library segment"""
    out = []
    if isinstance(seg, S.Move):
        return [(seg.end.x, seg.end.y)]
    for t in ts:
        p = seg.point(t)
        out.append((p.x, p.y))
    for n in ("control", "control1", "control2"):
        if hasattr(seg, n):
            c = getattr(seg, n)
            out.append((c.x, c.y))
    return out


def _axes_skewed(S, seg, m):
    """does the linear part of m map the arc's axes to non-perpendicular vectors?"""
    if not isinstance(seg, S.Arc) or seg.center is None:
        return False
    ux, uy = seg.prx.x - seg.center.x, seg.prx.y - seg.center.y
    vx, vy = seg.pry.x - seg.center.x, seg.pry.y - seg.center.y
    a, b, c, d = m[0], m[1], m[2], m[3]
    u = (a * ux + c * uy, b * ux + d * uy)
    v = (a * vx + c * vy, b * vx + d * vy)
    nu, nv = math.hypot(*u), math.hypot(*v)
    if nu == 0 or nv == 0:
        return False
    if abs(nu - nv) <= 1e-9 * max(nu, nv):
        return False  # a circle stays a circle whatever the axes are
    return abs(u[0] * v[0] + u[1] * v[1]) > 1e-9 * nu * nv


def compare(S, ctx, new, old_pts, m, kind, what, monitor, mclass, skewed=False, extra_cond=1.0, S_floor=0.0):
    """new segment's points vs m applied to the original's points"""
    exp = [m_apply(m, p) for p in old_pts]
    got = _pts(new, S, T17 if len(old_pts) >= 17 else T5)
    if len(got) != len(exp):
        ctx.violation("%s/%s/shape-of-result" % (monitor, kind), "%s: %d points vs %d" % (what, len(got), len(exp)), monitor=monitor)
        return False
    S_ = max([1e-3, S_floor] + [abs(v) for p in exp + old_pts for v in p] + [abs(m[4]), abs(m[5])])
    size = max([math.hypot(p[0] - exp[0][0], p[1] - exp[0][1]) for p in exp] + [0.0])
    k = m_cond(m) * extra_cond
    arc_term = 0.0
    if kind == "Arc":
        # radii, not the sampled chord, set the scale of an arc's parameter noise; flat ellipses magnify it (same terms as C06 / C08 and the hook)
        ecc = 1.0
        try:
            r1, r2 = float(new.rx), float(new.ry)
            size = max(size, r1, r2)
            ecc = max(r1, r2) / max(min(r1, r2), 1e-300)
        except Exception:
            pass
        arc_term = 2e-9 * size * max(1.0, k / 10) * max(1.0, ecc / 100.0) + 8 * 2.3e-16 * S_ * ecc * ecc
    bound = 4 * b_affine(S_, k) + arc_term
    dev = 0.0
    at = None
    for i, (a, b) in enumerate(zip(got, exp)):
        d = math.hypot(a[0] - b[0], a[1] - b[1])
        if d != d:
            d = math.inf
        if d > dev:
            dev, at = d, i
    if ctx.see("%s-%s" % (monitor, kind), dev / bound) > 1:
        feature = ("axes-skewed" if skewed else "axes-kept-perpendicular") if kind == "Arc" else mclass
        ctx.violation("%s/%s/%s" % (monitor, kind, feature), "%s: point #%d is %s, the matrix image of the original is %s (deviation %.3g, bound %.3g, size %.3g)" % (
            what, at, got[at], exp[at], dev, bound, size), monitor=monitor)
        return False
    return True


def run_case(S, case, ctx):
    M = tuple(case["M"])
    B = tuple(case["B"])
    st = case["stratum"]
    if st.startswith("segment/"):
        return _run_segment(S, case, ctx, M, B)
    if st == "path":
        return _run_path(S, case, ctx, M, B)
    if st == "subpath":
        return _run_subpath(S, case, ctx, M)
    return _run_shape(S, case, ctx, M)


def _run_segment(S, case, ctx, M, B):
    seg = GG.build_segment(S, case["seg"])
    kind = type(seg).__name__
    mc = case["mclass"]
    old = _pts(seg, S, T17)
    snap = repr(seg)
    LM, LB = S.Matrix(*M), S.Matrix(*B)
    # points themselves
    ctx.mon("point-times-matrix")
    for q in old[:3]:
        P = S.Point(q[0], q[1])
        r1 = P * LM
        P2 = S.Point(q[0], q[1])
        P2 *= LM
        e = m_apply(M, q)
        Sq = max(1e-3, abs(q[0]), abs(q[1]), abs(e[0]), abs(e[1]), abs(M[4]), abs(M[5]))
        if max(math.hypot(r1.x - e[0], r1.y - e[1]), math.hypot(P2.x - e[0], P2.y - e[1])) > 4 * b_affine(Sq, m_norm(M) + 1) or (P.x, P.y) != tuple(q):
            ctx.violation("point-times-matrix", "Point%s * Matrix%s = %s / *= %s, expected %s" % (q, M, (r1.x, r1.y), (P2.x, P2.y), e), monitor="point-times-matrix")
            return
    skew = _axes_skewed(S, seg, M)
    what = "%s * Matrix%s" % (snap, M)
    ctx.mon("segment-times-matrix")
    new = seg * LM
    if repr(seg) != snap:
        ctx.violation("operand-modified/segment*matrix/%s" % kind, "%s changed its left operand" % what, monitor="segment-times-matrix")
        return
    if type(new) is not type(seg):
        ctx.violation("segment-times-matrix/%s/kind-changed" % kind, "%s gave %r" % (what, new), monitor="segment-times-matrix")
        return
    if not compare(S, ctx, new, old, M, kind, what, "segment-times-matrix", mc, skew):
        return
    # in place, and with the matrix given as a string
    ctx.mon("segment-imul")
    s2 = copy(seg)
    s2 *= LM
    if not compare(S, ctx, s2, old, M, kind, "%s *= Matrix%s" % (snap, M), "segment-imul", mc, skew):
        return
    s3 = copy(seg)
    s3 *= "matrix(%r,%r,%r,%r,%r,%r)" % M
    if not compare(S, ctx, s3, old, M, kind, "%s *= 'matrix%s'" % (snap, M), "segment-imul", mc, skew):
        return
    # composition (X*A)*B = X*(A*B)
    ctx.mon("composition")
    AB = m_mul(M, B)
    one = (seg * LM) * LB
    two = seg * (LM * LB)
    skew2 = skew or _axes_skewed(S, seg, AB) or _axes_skewed(S, new, B)
    xc = max(1.0, m_cond(M) * m_cond(B) / max(m_cond(AB), 1.0))
    if not compare(S, ctx, one, old, AB, kind, "(%s * Matrix%s) * Matrix%s" % (snap, M, B), "composition", mc, skew2, xc):
        return
    compare(S, ctx, two, old, AB, kind, "%s * (Matrix%s * Matrix%s)" % (snap, M, B), "composition", mc, skew2, xc)


def _run_path(S, case, ctx, M, B):
    path = GG.build_path(S, case["path"])
    if case.get("linked_by_append"):
        # the same path assembled through append() from segments whose start is unknown: the library links them
        segs = [copy(s_) for s_ in path]
        path = S.Path()
        for i, s_ in enumerate(segs):
            if i > 0 and not isinstance(s_, S.Arc):
                s_.start = None
            path.append(s_)
    how = case.get("joined")
    if how and len(path) >= 3:
        # the same path assembled by joining two pieces (the library re-validates closes across the seam)
        segs = [copy(s_) for s_ in path]
        k = 1 + (case.get("join_at", 1) % (len(segs) - 1))
        first, second = S.Path(*segs[:k]), S.Path(*[copy(s_) for s_ in segs[k:]])
        try:
            if how == "iadd":
                first += second
                path = first
            elif how == "add":
                path = first + second
            elif how == "extend":
                first.extend(list(second))
                path = first
            else:
                whole = S.Path(*segs)
                extra = S.Line(segs[k - 1].end, segs[k - 1].end)
                whole.insert(k, extra)
                del whole[k]
                path = whole
        except Exception as e:
            ctx.violation("path-join/raises/%s" % type(e).__name__, "joining %s + %s by %s: %r" % (first.d(), second.d(), how, e), monitor="path-times-matrix")
            return
        from ..monitors import check_no_internal_alias
        msg = check_no_internal_alias(S, path)
        ctx.mon("path-internal-alias")
        if msg:
            ctx.violation("path-internal-alias/%s" % how, "after joining by %s: %s; path %s" % (how, msg, path.d()), monitor="path-internal-alias")
            return
    mc = case["mclass"]
    LM = S.Matrix(*M)
    olds = [_pts(seg, S, T5) for seg in path]
    skews = [_axes_skewed(S, seg, M) for seg in path]
    d0 = path.d(transformed=False)
    forms = []
    try:
        forms.append(("abs(path*M)", list(abs(path * LM))))
        forms.append(("(path*M).segments()", list((path * LM).segments(transformed=True))))
        p2 = copy(path)
        p2 *= LM
        p2.reify()
        forms.append(("path*=M; reify()", list(p2)))
        if not p2.transform.is_identity():
            ctx.violation("reify-leaves-transform/Path", "Path.reify() left %r" % p2.transform, monitor="path-times-matrix")
        # a path that already carries a transform
        p3 = copy(path)
        p3 *= LM
        p3 *= S.Matrix(*B)
        forms.append(("path*=M; path*=B; abs()", list(abs(p3))))
    except Exception as e:
        ctx.violation("path-times-matrix/raises/%s" % type(e).__name__, "Path(%s) with Matrix%s: %r" % (d0, M, e), monitor="path-times-matrix")
        return
    if path.d(transformed=False) != d0 or not path.transform.is_identity():
        ctx.violation("operand-modified/path*matrix", "Path(%s) * Matrix%s changed the path" % (d0, M), monitor="path-times-matrix")
        return
    try:
        # last, on the object itself (no copy in between: shared point objects would be mapped twice)
        path *= LM
        path.reify()
        forms.append(("path*=M; reify() on the object itself", list(path)))
    except Exception as e:
        ctx.violation("path-times-matrix/raises/%s" % type(e).__name__, "Path(%s) *= Matrix%s; reify(): %r" % (d0, M, e), monitor="path-times-matrix")
        return
    for name, segs in forms:
        ctx.mon("path-times-matrix")
        m = m_mul(M, B) if "B" in name else M
        if len(segs) != len(olds):
            ctx.violation("path-times-matrix/segment-count", "%s of Path(%s): %d segments, had %d" % (name, d0, len(segs), len(olds)), monitor="path-times-matrix")
            return
        for i, (seg, old) in enumerate(zip(segs, olds)):
            kind = type(seg).__name__
            sk = skews[i] or (("B" in name) and _axes_skewed(S, path[i], m))
            xc = max(1.0, m_cond(M) * m_cond(B) / max(m_cond(m), 1.0)) if "B" in name else 1.0
            if not compare(S, ctx, seg, old, m, kind, "%s of Path(%s) with Matrix%s, segment %d" % (name, d0, m, i), "path-times-matrix", mc, sk, xc):
                return


def _run_subpath(S, case, ctx, M):
    path = GG.build_path(S, case["path"])
    subs = list(path.as_subpaths())
    if not subs:
        return
    j = case["which"] % len(subs)
    sub = subs[j]
    lo, hi = sub._start, sub._end
    olds = [_pts(seg, S, T5) for seg in path]
    skews = [_axes_skewed(S, seg, M) for seg in path]
    d0 = path.d()
    ctx.mon("subpath-imul")
    try:
        sub *= S.Matrix(*M)
    except Exception as e:
        ctx.violation("subpath-imul/raises/%s" % type(e).__name__, "subpath %d of Path(%s) *= Matrix%s: %r" % (j, d0, M, e), monitor="subpath-imul")
        return
    I = (1.0, 0.0, 0.0, 1.0, 0.0, 0.0)
    for i, seg in enumerate(path):
        inside = lo <= i <= hi
        kind = type(seg).__name__
        if inside:
            old = olds[i]
            if i == lo and not isinstance(seg, S.Move) and len(old) > 1:
                pass
            if not compare(S, ctx, seg, old, M, kind, "subpath %d *= Matrix%s of Path(%s), segment %d" % (j, M, d0, i), "subpath-imul", case["mclass"], skews[i]):
                return
        else:
            # segments outside the window keep their geometry (the start of the segment that follows the window is
            # a link to the moved end point and is not geometry of a Move)
            new = _pts(seg, S, T5)
            old = olds[i]
            if i == hi + 1 and not isinstance(seg, S.Move):
                continue
            if new != old:
                ctx.violation("subpath-imul/outside-window-changed", "subpath %d *= Matrix%s of Path(%s): segment %d outside the subpath changed %s -> %s" % (j, M, d0, i, old, new), monitor="subpath-imul")
                return


def _run_shape(S, case, ctx, M):
    spec = case["shape"]
    pre = tuple(case["pre"]) if "pre" in case else None
    shape = GG.build_shape(S, spec, pre)
    what = "%r" % (spec,) + (" transform=%s" % (pre,) if pre else "")
    base = shape.segments(transformed=False)
    if not base:
        ctx.note("degenerate-shape")
        return
    base = list(base)
    olds = [_pts(seg, S, T5) for seg in base]
    total = m_mul(pre, M) if pre else M
    LM = S.Matrix(*M)
    skews = [_axes_skewed(S, seg, total) for seg in base]
    forms = []
    try:
        forms.append(("(shape*M).segments()", list((shape * LM).segments(transformed=True))))
        forms.append(("Path(shape)*M; reify()", list((S.Path(shape) * LM).reify())))
        a = abs(shape * LM)
        forms.append(("abs(shape*M).segments()", list(a.segments(transformed=True))))
        forms.append(("abs(Path(shape*M))", list(abs(S.Path(shape * LM)))))
    except Exception as e:
        ctx.violation("shape-times-matrix/raises/%s/%s" % (type(e).__name__, spec["kind"]), "%s with Matrix%s: %r" % (what, M, e), monitor="shape-times-matrix")
        return
    whole = max([1e-3] + [abs(v) for old in olds for q in old for v in m_apply(total, q)] + [abs(v) for old in olds for q in old for v in q])
    for name, segs in forms:
        ctx.mon("shape-times-matrix")
        if len(segs) != len(olds):
            ctx.violation("shape-times-matrix/segment-count/%s" % spec["kind"], "%s of %s with Matrix%s: %d segments, untransformed %d" % (name, what, M, len(segs), len(olds)), monitor="shape-times-matrix")
            return
        for i, (seg, old) in enumerate(zip(segs, olds)):
            kind = type(seg).__name__
            if kind != type(base[i]).__name__:
                ctx.violation("shape-times-matrix/kind-changed/%s" % spec["kind"], "%s of %s: segment %d is %s, untransformed %s" % (name, what, i, kind, type(base[i]).__name__), monitor="shape-times-matrix")
                return
            route = "decomposed-in-transformed-space" if name.startswith("(shape") or name.startswith("abs(shape") else "decomposed-then-mapped"
            if (spec["kind"] in ("circle", "ellipse") and route == "decomposed-in-transformed-space" and m_det(total) < 0
                    and total[0] * total[3] >= -1e-12 * abs(total[1] * total[2]) and not skews[i]):
                # a reflection whose diagonal product is not negative (matrix(0,1,1,0)-like): the shape's own
                # decomposition keeps the un-reflected direction; pinned by the repository's test_issue_mk_1362
                got = _pts(seg, S, T5)
                exp = [m_apply(total, q) for q in old]
                S_ = max([1e-3] + [abs(v) for q in exp for v in q])
                if isinstance(seg, S.Move) or max(math.hypot(a[0] - b[0], a[1] - b[1]) for a, b in zip(got, exp)) <= 1e-9 * S_:
                    continue
                ctx.violation("round-shape-direction/reflection-with-zero-diagonal", "%s of %s with Matrix%s: the circle/ellipse is traversed in the un-reflected direction (segment %d: %s, image of the original %s)" % (
                    name, what, M, i, got[2], exp[2]), monitor="shape-times-matrix")
                return
            ok = compare(S, ctx, seg, old, total, kind, "%s of %s with Matrix%s, segment %d" % (name, what, M, i),
                         "shape-times-matrix:%s:%s" % (spec["kind"] if kind == "Arc" else "straight", route), case["mclass"], skews[i], 1.0, whole)
            if not ok:
                return
