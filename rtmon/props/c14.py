"""C14 - fill, stroke and stroke width follow the SVG/CSS cascade and inheritance."""
import copy
import math

from .. import docmon as DM
from ..gen import documents as GD
from ..gen import styles as GS
from ..gen import transforms as GT
from ..num import m_det
from ..ref import cssref, docref

ID = "C14"
RULE = (
    "documents over the shape vocabulary (nesting up to 4, use of shapes and groups, nested svg, transforms of either determinant "
    "sign) with a style element first; for every property in {fill, stroke, stroke-width, fill-opacity, stroke-opacity, color, display} "
    "and every element any subset of the sources {presentation attribute, rule via *, type, .class, type.class, #id, comma list, "
    "inline style} with distinct values, rules in random order, with and without trailing semicolons, comments, several classes "
    "per element, currentColor, colours with alpha, vector-effect on shapes under viewBoxes, caller colour. The complete 8x8 "
    "table of ordered source-kind pairs competing for fill on one shape is enumerated by the case index. Every rendered shape's "
    "fill and stroke (rgb and alpha +-1), and stroke width (reified, and implicit when lazy) are compared with an independent "
    "cascade evaluator (specificity, source order, inline > rules > attribute, inheritance through the instance chain). "
    "Non-trivial = at least one shape with a property contested by two sources or inherited."
)
BUDGET = {"quick": 12000, "thorough": 400000}
TIME_CAP = {"quick": 240, "thorough": 1700}
ANCHORS = ["SVG.parse", "GraphicObject.property_by_values", "GraphicObject.render", "GraphicObject.reify", "GraphicObject.implicit_stroke_width", "Color.parse", "Color.opacity"]
REQUIRED_MONITORS = ["fill", "stroke", "stroke-width-reified", "stroke-width-implicit", "rendered-list", "source-pair"]

SRC = GS.SOURCES
STRATA = ["pair-" + s for s in SRC] + ["general", "use"]


def strata_minimum(tier):
    f = 1 if tier == "quick" else 30
    return {s: 800 * f for s in STRATA}


def nontrivial(case):
    return case.get("contested", 1) >= 1


def gen_case(R, index, tier):
    k = index % 10
    opts = {"units": 0.05, "percent": 0.0, "nested_svg": 0.25, "use": 0.4, "hidden": 0.0, "depth": 2 if tier == "quick" else 4, "root_viewbox": 0.5, "shape_tf": 0.5}
    sopts = {}
    if k < 8:
        st = "pair-" + SRC[k]
        sopts["pair"] = (SRC[k], SRC[(index // 10) % 8])
        opts["use"] = 0.2
    elif k == 8:
        st = "general"
        sopts["density"] = 0.6
    else:
        st = "use"
        opts["use"] = 0.95
        sopts["density"] = 0.5
    doc = GS.decorate(R, GD.generate(R, opts), sopts)
    cfg = {"ppi": 96.0}
    if R.random() < 0.3:
        cfg["color"] = R.choice([t for t, _ in GS.OPAQUE])
    if R.random() < 0.2:
        fns = [GT.fn(R, R.choice(["scale", "rotate", "matrix", "scale1"]))]
        cfg["transform"], cfg["tftext"] = fns, GT.spell_list(R, fns)
    return {"stratum": st, "doc": doc, "cfg": cfg, "pair": list(sopts.get("pair", [])) or None}


def shrink_candidates(case):
    doc = case["doc"]
    for n in GD.walk(doc):
        if n is doc:
            continue
        c = copy.deepcopy(case)
        c["doc"] = GD.remove_ids(doc, {n["id"]})
        yield c
    for i in range(len(doc.get("rules", []))):
        c = copy.deepcopy(case)
        del c["doc"]["rules"][i]
        respell(c["doc"])
        yield c
    for n in GD.walk(doc):
        if n.get("tf"):
            c = copy.deepcopy(case)
            m = GD.find(c["doc"], n["id"])
            m["tf"], m["tftext"] = None, None
            yield c
        for k in list(n.get("attrs", {})):
            if k in ("class", "style"):
                continue
            c = copy.deepcopy(case)
            del GD.find(c["doc"], n["id"])["attrs"][k]
            yield c
        for i in range(len(n.get("inline", []))):
            c = copy.deepcopy(case)
            m = GD.find(c["doc"], n["id"])
            del m["inline"][i]
            if m["inline"]:
                m["attrs"]["style"] = ";".join("%s:%s" % d for d in m["inline"])
            else:
                m["attrs"].pop("style", None)
            yield c


def respell(doc):
    doc["style_text"] = "\n".join("%s{%s}" % (",".join(r["sels"]), ";".join("%s:%s" % d for d in r["decls"])) for r in doc.get("rules", []))


def observed_colour(c):
    if c is None or c.value is None:
        return None
    return (c.red, c.green, c.blue, c.alpha)


def colour_of(text, env):
    m = GS.MEANING[("colour", text)]
    if m == "current":
        m = GS.MEANING[("colour", env.v["color"])]
    return m


def explain(env, p, obs):
    """which other source would produce the observed colour of property p"""
    for pr, kind, v in reversed(env.cands.get(p, [])[:-1]):
        m = colour_of(v, env)
        if (m is None and obs is None) or (m is not None and obs is not None and tuple(m[:3]) == tuple(obs[:3])):
            return kind
    pv = env.parent_v.get(p)
    if pv is not None and env.src.get(p) not in ("inherited", "default"):
        m = colour_of(pv, env)
        if (m is None and obs is None) or (m is not None and obs is not None and tuple(m[:3]) == tuple(obs[:3])):
            return "inherited-value"
    return None


def scalar(table, text, vp=None):
    m = GS.MEANING[(table, text)]
    if isinstance(m, tuple):
        # a percentage of the normalised viewport diagonal (SVG 2 8.9)
        return m[1] / 100.0 * math.sqrt((vp[0] ** 2 + vp[1] ** 2) / 2.0)
    return m


def explain_scalar(env, p, table, obs_value, scale, vp=None):
    for pr, kind, v in reversed(env.cands.get(p, [])[:-1]):
        if abs(scalar(table, v, vp) * scale - obs_value) <= 1e-6 * max(1.0, abs(obs_value)):
            return kind
    pv = env.parent_v.get(p)
    if pv is not None and env.src.get(p) not in ("inherited", "default") and abs(scalar(table, pv, vp) * scale - obs_value) <= 1e-6 * max(1.0, abs(obs_value)):
        return "inherited-value"
    return None


def check_paint(S, ctx, inst, shape, reify, xml):
    env = inst["env"]
    paint = env.paint()
    who = "%s #%s (chain %s)" % (inst["tag"], inst["id"], inst["chain"])
    contested = 0
    for p in ("fill", "stroke"):
        ctx.mon(p)
        if len(env.cands.get(p, [])) >= 2 or env.src[p] == "inherited":
            contested += 1
        if len(env.cands.get(p, [])) >= 2:
            ctx.mon("source-pair")
            a, b = env.cands[p][-2][1], env.cands[p][-1][1]
            ctx.note("contest %s < %s" % (a, b))
        ctx.note("%s from %s" % (p, env.src[p]))
        if p in paint["ambiguous"]:
            ctx.note("currentColor inherited across a color change (readings differ): not judged")
            continue
        obs = observed_colour(getattr(shape, p))
        e = paint[p]
        if e is None and obs is None:
            continue
        if e is None or obs is None or tuple(e[:3]) != tuple(obs[:3]):
            alt = explain(env, p, obs)
            key = "cascade/%s/%s-loses-to-%s" % (p, env.src[p], alt) if alt else "paint/%s/%s/unexplained" % (p, env.src[p])
            ctx.violation(key, "reify=%s: %s has %s %s, the cascade gives %s (from %s; candidates %s; inherited %r); document %s" % (
                reify, who, p, obs, e, env.src[p], [(k, v) for _, k, v in env.cands.get(p, [])], env.parent_v.get(p), xml), monitor=p)
            return contested, False
        if abs(e[3] - obs[3]) > 1.0 + 1e-9:
            op = p + "-opacity"
            o = GS.MEANING[("opacity", env.v[op])]
            colour_alpha = colour_of(env.v[p], env)[3]
            if colour_alpha != 255 and abs(obs[3] - 255.0 * o) <= 1.0:
                key = "opacity/%s/replaces-the-colour-alpha" % p
            elif abs(obs[3] - colour_alpha) <= 1.0 and o != 1.0:
                key = "opacity/%s/%s-ignored" % (p, env.src[op])
            else:
                alt = explain_scalar(env, op, "opacity", obs[3], float(colour_alpha))
                key = "cascade/%s/%s-loses-to-%s" % (op, env.src[op], alt) if alt else "paint/%s/%s/unexplained" % (op, env.src[op])
            ctx.violation(key, "reify=%s: %s has %s alpha %s, expected %.1f (colour alpha %s x %s %s from %s); document %s" % (reify, who, p, obs[3], e[3], colour_alpha, op, o, env.src[op], xml), monitor=p)
            return contested, False
    # stroke width
    mon = "stroke-width-reified" if reify else "stroke-width-implicit"
    ctx.mon(mon)
    if len(env.cands.get("stroke-width", [])) >= 2 or env.src["stroke-width"] == "inherited":
        contested += 1
    nss = env.vector_effect is not None and "non-scaling-stroke" in env.vector_effect
    if nss:
        # "the viewport transform alone": the product of the enclosing viewBox transforms.  The library takes everything accumulated
        # up to the nearest svg with a viewBox; where the two readings differ (caller / svg / g transforms outside it) the case is
        # not judged
        det_a, ctm_b = inst["vpctm"]
        if abs(abs(det_a) - abs(m_det(ctm_b))) > 1e-9 * max(abs(det_a), abs(m_det(ctm_b))):
            ctx.note("non-scaling stroke under transforms outside the viewBox (readings differ): not judged")
            return contested, True
        scale = math.sqrt(abs(det_a))
    else:
        scale = math.sqrt(abs(m_det(inst["ctm"])))
    percent = isinstance(paint["stroke-width"], tuple)
    if percent:
        ctx.note("stroke width in percent")
        # (the computed value of a percentage stroke width stays a percentage, SVG 2 13.5.2: it is resolved against the viewport of the shape)
    width = scalar("width", env.v["stroke-width"], inst["vp"])
    want = width * scale
    # a shape that could not be reified keeps its matrix and its raw width: then the implicit width is the observable
    t = shape.transform
    near_identity = max(abs(t.a - 1), abs(t.b), abs(t.c), abs(t.d - 1)) <= 1e-9 and max(abs(t.e), abs(t.f)) <= 1e-9 * max(1.0, inst["terr"] + inst["amp"] * inst.get("opmag", 0.0))
    lazy = (not reify) or not near_identity
    got = shape.implicit_stroke_width if lazy else shape.stroke_width
    if nss:
        ctx.note("non-scaling stroke")
    try:
        got = float(got)
    except Exception:
        ctx.violation("stroke-width/not-a-number", "reify=%s: %s has stroke width %r; document %s" % (reify, who, got, xml), monitor=mon)
        return contested, False
    tol = 1e-9 * max(1.0, abs(want)) * max(1.0, inst["amp"] ** 2 / max(abs(m_det(inst["ctm"])), 1e-300)) + (4e-6 * abs(want) if inst.get("metric") else 0.0)
    if ctx.see(mon, abs(got - want) / tol) > 1:
        alt = explain_scalar(env, "stroke-width", "width", got, scale, inst["vp"])
        if alt:
            key = "cascade/stroke-width/%s-loses-to-%s" % (env.src["stroke-width"], alt)
        elif percent and abs(got - width * math.sqrt(2.0) * scale) <= tol * 2:
            key = "stroke-width/percent-of-the-unnormalised-diagonal"
        elif abs(got - width) <= tol and scale != 1.0:
            key = "stroke-width/not-scaled/%s" % ("non-scaling" if nss else ("reified" if reify else "implicit"))
        elif nss and abs(got - width * math.sqrt(abs(m_det(inst["ctm"])))) <= tol:
            key = "stroke-width/non-scaling-stroke-uses-the-full-transform"
        elif not nss and abs(got - width * math.sqrt(abs(inst["vpctm"][0]))) <= tol:
            key = "stroke-width/scaled-by-the-viewport-transform-only"
        else:
            key = "stroke-width/%s/unexplained" % ("non-scaling" if nss else "scaling")
        ctx.violation(key, "reify=%s: %s has stroke width %r, expected %r = %r x sqrt|det| %r (%s from %s); document %s" % (
            reify, who, got, want, width, scale, "vector-effect non-scaling-stroke" if nss else "accumulated transform", env.src["stroke-width"], xml), monitor=mon)
        return contested, False
    return contested, True


def run_case(S, case, ctx):
    doc, cfg = case["doc"], case["cfg"]
    xml = GD.to_xml(doc)
    rcfg = DM.cfg_of(cfg)
    caller = cfg.get("color", "black")
    exp = docref.evaluate(doc, rcfg, css=cssref.Env(caller))
    if case.get("pair"):
        ctx.note("pair %s | %s" % tuple(case["pair"]))
    contested = 0
    for reify in (True, False):
        kw = DM.parse_kwargs(cfg, reify)
        if "color" in cfg:
            kw["color"] = cfg["color"]
        try:
            svg = DM.parse(S, xml, kw)
            shapes = DM.shapes(S, svg)
        except Exception as e:
            ctx.violation("raises/%s" % type(e).__name__, "SVG.parse(%s, %s): %r" % (xml, kw, e), monitor="rendered-list")
            return
        ctx.mon("rendered-list")
        want_ids = [(i["tag"], i["id"]) for i in exp]
        have_ids = [(DM.tag_of(s), s.id) for s in shapes]
        if want_ids != have_ids:
            extra = [x for x in have_ids if x not in set(want_ids)]
            missing = [x for x in want_ids if x not in set(have_ids)]
            how = "display-none-rendered" if extra else ("missing" if missing else "order-or-multiplicity")
            ctx.violation("rendered-list/%s" % how, "reify=%s: rendered %s, expected %s; document %s" % (reify, have_ids, want_ids, xml), monitor="rendered-list")
            return
        for inst, s in zip(exp, shapes):
            c, ok = check_paint(S, ctx, inst, s, reify, xml)
            contested += c
            if not ok:
                case["contested"] = contested
                return
    case["contested"] = contested
