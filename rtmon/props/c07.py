"""C07 - serialising a path to path data and re-parsing it reproduces the path."""
import math
from copy import copy

from ..gen import geometry as GG
from ..gen import pathdata as G
from ..gen import transforms as GT
from ..num import b_fmt12
from ..ref import pathscan

ID = "C07"
RULE = (
    "paths from the C01 program generator (as-parsed relative / smooth flags), the same after a matrix and reify (arcs with "
    "arbitrary radii, rotation, scaled-up and near-half-turn extents), programmatically built paths, paths whose consecutive "
    "points differ by 1..1000 ulp or 1e-12..1e-8, subpaths begun without a move, paths edited after parsing (control moved, "
    "segment deleted, smooth flag set by hand); each crossed with relative in {None, False, True} x smooth in {None, False, True}, "
    "plus str(path) and Subpath.d(). The re-parsed text must have the same number and kinds of segments and the same geometry "
    "at 9 parameters within the precision of the 12-digit writer. Non-trivial = a drawn segment exists."
)
BUDGET = {"quick": 5000, "thorough": 200000}
TIME_CAP = {"quick": 240, "thorough": 1500}
ANCHORS = ["Path.svg_d", "Path.d", "Subpath.d", "Move.d", "Close.d", "Line.d", "QuadraticBezier.d", "CubicBezier.d", "Arc.d", "Point.__str__",
           "QuadraticBezier.is_smooth_from", "CubicBezier.is_smooth_from"]
REQUIRED_MONITORS = ["roundtrip", "str-roundtrip", "subpath-roundtrip", "output-conforms"]

T9 = [i / 8.0 for i in range(9)]
COMBOS = [(r, s) for r in (None, False, True) for s in (None, False, True)]


def strata_minimum(tier):
    f = 1 if tier == "quick" else 20
    return {"parsed": 1200 * f, "transformed": 800 * f, "built": 500 * f, "near-coincident": 300 * f, "moveless": 300 * f, "edited": 250 * f, "cross-degree-reflection": 100 * f}


def nontrivial(case):
    return True


def _nearpt(R, p):
    k = R.random()
    if k < 0.5:
        n = R.choice([1, 2, 7, 100, 1000])
        return [p[0] + n * math.ulp(p[0] if p[0] else 1.0) * R.choice([-1, 1]), p[1] + n * math.ulp(p[1] if p[1] else 1.0) * R.choice([-1, 0, 1])]
    d = 10 ** R.uniform(-12, -8)
    return [p[0] + d * R.choice([-1, 1]), p[1] + d * R.choice([-1, 0, 1])]


def gen_case(R, index, tier):
    k = R.random()
    case = {"combo": index % 9}
    if k < 0.30:
        case.update({"stratum": "parsed", "text": G.spell_program(R, G.program(R, maxcmd=8))})
    elif k < 0.52:
        case.update({"stratum": "transformed", "text": G.spell_program(R, G.program(R, maxcmd=6)), "M": list(GT.affine(R)[1])})
    elif k < 0.68:
        case.update({"stratum": "built", "path": GG.path(R, nsub=R.randint(1, 3), maxseg=4), "flags": [[R.random() < 0.5, R.random() < 0.5] for _ in range(16)]})
        if R.random() < 0.4:
            case["M"] = list(GT.affine(R)[1])
    elif k < 0.78:
        # consecutive points that nearly coincide: relative offsets need exponent notation
        p = GG.pt(R)
        specs = [{"k": "M", "p": p}]
        cur = p
        for _ in range(R.randint(2, 5)):
            w = R.random()
            if w < 0.5:
                e = _nearpt(R, cur)
                specs.append({"k": "L", "s": cur, "e": e})
            elif w < 0.75:
                e = _nearpt(R, cur)
                specs.append({"k": "Q", "s": cur, "c": _nearpt(R, cur), "e": e})
            else:
                e = _nearpt(R, cur)
                specs.append({"k": "C", "s": cur, "c1": _nearpt(R, cur), "c2": _nearpt(R, e), "e": e})
            cur = e
        case.update({"stratum": "near-coincident", "path": specs, "flags": [[True, False]] * 16})
    elif k < 0.88:
        # subpaths that begin directly after a close (a fragment without any leading move has no start point
        # that path data could carry, so it is not part of this round-trip law)
        specs = GG.path(R, nsub=R.randint(2, 4), maxseg=3, closed_prob=0.9, moveless=True)
        case.update({"stratum": "moveless", "path": specs, "flags": [[R.random() < 0.5, R.random() < 0.5] for _ in range(16)]})
    elif k < 0.91:
        # a curve whose first control happens to be the reflection of the last control of a curve of the OTHER degree:
        # the shorthand must not be used for it
        p0 = GG.pt(R)
        if R.random() < 0.5:
            c = GG.bezier(R, "C", "generic", p0)
            e = c["e"]
            refl = [2 * e[0] - c["c2"][0], 2 * e[1] - c["c2"][1]]
            nxt = {"k": "Q", "s": e, "c": refl, "e": GG._near(R, e, 30)}
        else:
            c = GG.bezier(R, "Q", "generic", p0)
            e = c["e"]
            refl = [2 * e[0] - c["c"][0], 2 * e[1] - c["c"][1]]
            nxt = {"k": "C", "s": e, "c1": refl, "c2": GG._near(R, e, 30), "e": GG._near(R, e, 30)}
        case.update({"stratum": "cross-degree-reflection", "path": [{"k": "M", "p": p0}, c, nxt], "flags": [[R.random() < 0.5, True]] * 16})
    else:
        base = R.choice(["M0,0 C1,2 3,4 5,6 S 8,9 12,3 S 15,0 20,5", "M1,1 Q 4,5 8,2 T 12,8 T 20,0 t 3,3", "m 3,4 c 1,1 2,-3 5,0 s 2,4 6,1 s 1,1 2,2 z", "M0,0 q 5,5 10,0 t 10,0 C 30,5 40,5 50,0 S 70,-5 80,0"])
        case.update({"stratum": "edited", "text": base, "edit": R.choice(["move-control", "delete", "set-smooth", "insert-line", "reverse"]), "at": R.randint(1, 3), "delta": [R.uniform(-3, 3), R.uniform(-3, 3)]})
    return case


def _pts(S, seg):
    if isinstance(seg, S.Move):
        return [(seg.end.x, seg.end.y)]
    if seg.start is None or seg.end is None:
        return None
    return [(p.x, p.y) for p in (seg.point(t) for t in T9)]


def _arc_size(S, seg):
    return max(seg.rx, seg.ry, math.hypot(seg.end.x - seg.start.x, seg.end.y - seg.start.y))


def compare(S, ctx, ref_segs, got, what, key, monitor, nseg_rel):
    """got (a re-parsed Path) against the segments ref_segs; returns None when equal, else (kind, detail, arc_only)"""
    got = list(got)
    if len(got) != len(ref_segs):
        return ("count", "%d segments, the source has %d" % (len(got), len(ref_segs)), False)
    S_ = 1e-3
    for s in ref_segs:
        for p in s:
            if p is not None:
                S_ = max(S_, abs(p.x), abs(p.y))
    worst = None
    arc_only = True
    for i, (a, b) in enumerate(zip(ref_segs, got)):
        if type(a) is not type(b):
            return ("kind", "segment %d is %s, the source has %s" % (i, type(b).__name__, type(a).__name__), False)
        pa, pb = _pts(S, a), _pts(S, b)
        if pa is None or pb is None:
            if i == 0 and not isinstance(a, S.Move):
                # the first segment of a fragment has no start: compare its end only
                pa, pb = [(a.end.x, a.end.y)], [(b.end.x, b.end.y)]
            else:
                return ("none-point", "segment %d has a None point" % i, False)
        # 4e-12 absolute: the writer decides smoothness with the library's point equality (1e-12 absolute), which is
        # finer than the 12-digit format for every coordinate of the stated range (>= 1e-3)
        bound = b_fmt12(S_, nseg_rel) + 4e-12
        if isinstance(a, S.Arc) and a.sweep != 0:
            size = _arc_size(S, a)
            chord = math.hypot(a.end.x - a.start.x, a.end.y - a.start.y)
            # the reader re-solves the centre from the printed end points: a square root of cancelling noise, and
            # for a nearly closed arc the direction of a tiny chord is only known to (print error / chord)
            ecc = min(1e3, max(a.rx, a.ry) / max(min(a.rx, a.ry), 1e-300))  # a flat ellipse magnifies the centre shift
            bound += size * ecc * max(1e-6, 4 * math.sqrt(1e-12 * max(S_, size) / max(size, 1e-300)))
            bound += size * min(4.0, ecc * 16e-12 * S_ / max(chord, 1e-300))
        d = max(math.hypot(p[0] - q[0], p[1] - q[1]) for p, q in zip(pa, pb))
        r = d / bound
        if r > 1:
            if not isinstance(a, S.Arc):
                arc_only = False
            if worst is None or r > worst[0]:
                worst = (r, i, type(a).__name__, d, bound)
        else:
            ctx.see("roundtrip-%s" % type(a).__name__, r)
    if worst:
        return ("geometry/%s" % worst[2], "segment %d (%s) deviates by %.3g (bound %.3g)" % (worst[1], worst[2], worst[3], worst[4]), arc_only)
    return None


def repaired_arc_text(S, text, ref_segs):
    """the same path data with every arc's radii and rotation replaced by their full-precision values"""
    try:
        prog = pathscan.scan(text)
    except pathscan.ScanError:
        return None
    arcs = [s for s in ref_segs if isinstance(s, S.Arc)]
    k = 0
    for com in prog:
        if com["c"] in "Aa":
            for g in com["g"]:
                if k >= len(arcs):
                    return None
                a = arcs[k]
                g[0], g[1], g[2] = a.rx, a.ry, float(a.get_rotation().as_degrees)
                k += 1
    if k != len(arcs):
        return None
    return G.spell_program(None, prog, plain=True)


def roundtrip(S, ctx, segs, text, what, monitor, nseg_rel, feature):
    """parse text and compare with segs; classify"""
    ctx.mon(monitor)
    ctx.mon("output-conforms")
    try:
        pathscan.scan(text)
    except pathscan.ScanError as e:
        # fragments begin without a move: accepted by the library, not by the grammar
        if not (segs and not isinstance(segs[0], S.Move)):
            ctx.violation("output-not-conforming/%s" % feature, "%s = %r is not grammar-conforming path data (%s)" % (what, text, e), monitor="output-conforms")
            return False
    try:
        q = S.Path(text)
    except Exception as e:
        ctx.violation("reparse-raises/%s/%s" % (type(e).__name__, feature), "%s = %r: %r" % (what, text, e), monitor=monitor)
        return False
    bad = compare(S, ctx, segs, q, what, feature, monitor, nseg_rel)
    if bad is None:
        return True
    kind, detail, arc_only = bad
    if kind.startswith("geometry/Arc") and arc_only:
        t2 = repaired_arc_text(S, text, segs)
        if t2 is not None:
            try:
                q2 = S.Path(t2)
                if compare(S, ctx, segs, q2, what, feature, monitor, nseg_rel) is None:
                    ctx.violation("arc-parameters-written-with-6-digits", "%s = %r: %s; with the radii/rotation given in full precision the same text round-trips" % (what, text, detail), monitor=monitor)
                    return False
            except Exception:
                pass
    ctx.violation("roundtrip/%s/%s" % (kind, feature), "%s = %r: %s" % (what, text, detail), monitor=monitor)
    return False


def build(S, case):
    st = case["stratum"]
    if st in ("parsed", "transformed", "edited"):
        p = S.Path(case["text"])
    else:
        p = GG.build_path(S, case["path"])
        for seg, (rel, sm) in zip(p, case["flags"]):
            seg.relative = rel
            if hasattr(seg, "smooth"):
                seg.smooth = sm
    if case.get("M"):
        p *= S.Matrix(*case["M"])
        if st == "transformed":
            p.reify()
    if st == "edited":
        e, at = case["edit"], case["at"]
        at = min(at, len(p) - 1)
        if e == "move-control":
            seg = p[at]
            c = seg.control2 if hasattr(seg, "control2") else (seg.control if hasattr(seg, "control") else None)
            if c is not None:
                c.x += case["delta"][0]
                c.y += case["delta"][1]
        elif e == "delete":
            if len(p) > 2:
                del p[at]
        elif e == "set-smooth":
            for seg in p:
                if hasattr(seg, "smooth"):
                    seg.smooth = True
            seg = p[at]
            c = seg.control1 if hasattr(seg, "control1") else (seg.control if hasattr(seg, "control") else None)
            if c is not None:
                c.x += case["delta"][0]
        elif e == "insert-line":
            s0 = p[at].start
            if s0 is not None:
                p.insert(at, S.Line(S.Point(s0.x, s0.y), S.Point(s0.x + case["delta"][0], s0.y + case["delta"][1])))
        else:
            p.reverse()
    return p


def run_case(S, case, ctx):
    st = case["stratum"]
    try:
        p = build(S, case)
    except Exception as e:
        ctx.undecided("building the path raised %s (not this property's subject)" % type(e).__name__)
        return
    if len(p) == 0:
        return
    try:
        ref = list(abs(p))
    except Exception as e:
        ctx.undecided("abs(path) raised %s" % type(e).__name__)
        return
    if any(isinstance(s, S.Arc) and abs(s.sweep) >= 2 * math.pi for s in ref):
        ctx.note("arc-of-a-full-turn-or-more (cannot be written as one arc command; excluded)")
        return
    n = len(ref)
    combos = [COMBOS[case["combo"]], COMBOS[(case["combo"] + 4) % 9]]
    for r, sm in combos:
        what = "Path.d(relative=%r, smooth=%r)" % (r, sm)
        try:
            text = p.d(relative=r, smooth=sm)
        except Exception as e:
            ctx.violation("d-raises/%s/%s" % (type(e).__name__, st), "%s of %r: %r" % (what, p, e), monitor="roundtrip")
            return
        feature = "relative=%s/smooth=%s" % (r, sm)
        if st in ("edited", "moveless", "near-coincident", "cross-degree-reflection"):
            feature = st + "/" + feature
        if not roundtrip(S, ctx, ref, text, what, "roundtrip", n if r is not False else 0, feature):
            return
    # str(path)
    try:
        text = str(p)
    except Exception as e:
        ctx.violation("str-raises/%s" % type(e).__name__, "str(%r): %r" % (p, e), monitor="str-roundtrip")
        return
    if not roundtrip(S, ctx, ref, text, "str(path)", "str-roundtrip", n, "str" if st not in ("edited", "moveless", "near-coincident") else st + "/str"):
        return
    # every subpath on its own
    q = abs(p)
    for j, sub in enumerate(q.as_subpaths()):
        segs = list(q)[sub._start:sub._end + 1]
        if not segs:
            continue
        if not isinstance(segs[0], S.Move):
            ctx.note("subpath-without-own-move: its text alone cannot carry its start point (not judged standalone)")
            continue
        for r in (None, False, True):
            try:
                text = sub.d(relative=r)
            except Exception as e:
                ctx.violation("subpath-d-raises/%s" % type(e).__name__, "subpath %d .d(relative=%r): %r" % (j, r, e), monitor="subpath-roundtrip")
                return
            own_move = isinstance(segs[0], S.Move)
            feature = "subpath/relative=%s/%s" % (r, "own-move" if own_move else "moveless")
            if not roundtrip(S, ctx, segs, text, "Subpath(%d).d(relative=%r) of %s" % (j, r, q.d()), "subpath-roundtrip", len(segs), feature):
                return
