"""C19 - arc-to-Bezier conversion keeps endpoints, continuity and a bounded error."""
import math
from copy import copy

from .. import monitors
from ..gen import geometry as GG
from ..gen import transforms as GT
from ..gen.numbers import coord

ID = "C19"
RULE = (
    "arcs (radii ratio up to 100, any rotation, |sweep| 1e-3 .. 1.9 turns in both directions, endpoint and centre form, also "
    "after a matrix was applied, zero extent, zero radius) converted alone (as_cubic_curves / as_quad_curves with default and "
    "explicit counts 1..64) and embedded at the first / middle / last position of a path, several per path "
    "(approximate_arcs_with_cubics / _with_quads, error 0.25 .. 0.005); the chain's end points and joins are compared exactly, "
    "16 points per curve are measured against the arc's ellipse (Newton closest point), the winding about the centre against "
    "the sweep, finer subdivisions against coarser ones, untouched segments bit for bit. Non-trivial = non-zero extent."
)
BUDGET = {"quick": 4000, "thorough": 300000}
TIME_CAP = {"quick": 240, "thorough": 1500}
ANCHORS = ["Arc.as_cubic_curves", "Arc.as_quad_curves", "Path.approximate_arcs_with_cubics", "Path.approximate_arcs_with_quads", "Path.__setitem__"]
REQUIRED_MONITORS = ["chain-endpoints", "chain-joins", "ellipse-residual", "winding", "refinement", "rest-untouched", "path-links"]

D_CUBIC = 1e-3
D_QUAD = 1e-2


def strata_minimum(tier):
    f = 1 if tier == "quick" else 20
    return {"alone-default": 800 * f, "alone-explicit": 600 * f, "embedded": 600 * f, "zero-extent": 60 * f, "zero-radius": 30 * f}


def setup(S, ctx, tier):
    monitors.install_path_invariants(S)


def nontrivial(case):
    return case["stratum"] not in ("zero-extent",)


def _arc(R):
    st = R.choice(GG.ARC_STRATA + ["centre", "centre-multi-turn", "endpoint"])
    return GG.arc(R, st), st


def gen_case(R, index, tier):
    k = R.random()
    case = {}
    if k < 0.36:
        spec, st = _arc(R)
        case = {"stratum": "alone-default", "arc": spec, "arcclass": st}
    elif k < 0.64:
        spec, st = _arc(R)
        case = {"stratum": "alone-explicit", "arc": spec, "arcclass": st, "n": R.choice([1, 2, 3, 4, 5, 6, 8, 12, 16, 24, 32, 64])}
    elif k < 0.94:
        # a path with arcs separated by straight segments (so chains are recognisable as maximal runs of curves)
        specs = []
        cur = GG.pt(R)
        specs.append({"k": "M", "p": cur})
        narcs = R.randint(1, 3)
        where = R.choice(["first", "middle", "last", "only", "fragment"])
        if where in ("middle", "last"):
            sp = GG.line(R, cur)
            specs.append(sp)
            cur = GG.seg_end(sp)
        for j in range(narcs):
            st = R.choice(GG.ARC_STRATA)
            sp = GG.arc(R, st, cur)
            specs.append(sp)
            cur = GG.seg_end(sp)
            if j < narcs - 1 or where in ("first", "middle"):
                sp = GG.line(R, cur)
                specs.append(sp)
                cur = GG.seg_end(sp)
        if where == "fragment":
            specs = specs[1:]  # a path fragment: the arc is the very first segment, there is no move
        elif where != "only" and R.random() < 0.5:
            home = specs[0]["p"]
            specs.append({"k": "Z", "s": list(cur), "e": list(home)})
        case = {"stratum": "embedded", "path": specs, "where": where, "error": R.choice([0.25, 0.1, 0.1, 0.05, 0.02, 0.005])}
    elif k < 0.98:
        s = GG.pt(R)
        case = {"stratum": "zero-extent", "arc": {"k": "A", "arc": [s[0], s[1], R.uniform(1, 50), R.uniform(1, 50), R.uniform(-360, 360), R.randint(0, 1), R.randint(0, 1), s[0], s[1]]},
                "embedded": R.random() < 0.5}
    else:
        s, e = GG.pt(R), GG.pt(R)
        if s == e:
            e[0] += 1
        case = {"stratum": "zero-radius", "arc": {"k": "A", "arc": [s[0], s[1], 0.0, R.uniform(1, 50), 0.0, 0, 1, e[0], e[1]]}}
    if "arc" in case and R.random() < 0.3 and case["stratum"] in ("alone-default", "alone-explicit"):
        case["matrix"] = list(GT.affine(R, R.choice(["rotate", "aniso", "rot-aniso", "shear", "general", "general-neg", "reflect"]))[1])
    case["to"] = R.choice(["cubic", "quad"])
    return case


def _ellipse(arc):
    """centre, radii, rotation of the library arc's ellipse (its stored point form)"""
    c = (arc.center.x, arc.center.y)
    ux, uy = arc.prx.x - c[0], arc.prx.y - c[1]
    vx, vy = arc.pry.x - c[0], arc.pry.y - c[1]
    rx, ry = math.hypot(ux, uy), math.hypot(vx, vy)
    phi = math.atan2(uy, ux)
    return c, rx, ry, phi


def dist_to_ellipse(p, c, rx, ry, phi):
    """distance from p to the ellipse (Newton on the parametric form, started at the radial projection)"""
    cs, sn = math.cos(phi), math.sin(phi)
    dx, dy = p[0] - c[0], p[1] - c[1]
    u, v = cs * dx + sn * dy, -sn * dx + cs * dy
    th = math.atan2(v / ry, u / rx)
    for _ in range(12):
        ct, st = math.cos(th), math.sin(th)
        ex, ey = rx * ct, ry * st
        d1x, d1y = -rx * st, ry * ct
        f = (ex - u) * d1x + (ey - v) * d1y
        fp = d1x * d1x + d1y * d1y + (ex - u) * (-ex) + (ey - v) * (-ey)
        if fp <= 0:
            break
        step = f / fp
        th -= step
        if abs(step) < 1e-14:
            break
    return math.hypot(rx * math.cos(th) - u, ry * math.sin(th) - v), th


def measure_chain(S, ctx, arc, chain, what, limit, to, check_error=True):
    """all clauses for one arc and its replacement chain; returns max relative deviation or None after a violation"""
    c, rx, ry, phi = _ellipse(arc)
    big = max(rx, ry)
    ctx.mon("chain-endpoints")
    if not chain:
        ctx.violation("chain-empty/%s" % to, "%s: an arc of sweep %r produced no curves" % (what, arc.sweep), monitor="chain-endpoints")
        return None
    want = S.CubicBezier if to == "cubic" else S.QuadraticBezier
    if any(type(s) is not want for s in chain):
        ctx.violation("chain-kind/%s" % to, "%s: chain contains %s" % (what, sorted(set(type(s).__name__ for s in chain))), monitor="chain-endpoints")
        return None
    s0, e0 = (chain[0].start.x, chain[0].start.y), (chain[-1].end.x, chain[-1].end.y)
    if s0 != (arc.start.x, arc.start.y) or e0 != (arc.end.x, arc.end.y):
        ctx.violation("chain-endpoints-not-exact/%s" % to, "%s: chain runs %s -> %s, the arc %s -> %s" % (what, s0, e0, (arc.start.x, arc.start.y), (arc.end.x, arc.end.y)), monitor="chain-endpoints")
        return None
    ctx.mon("chain-joins")
    for i in range(1, len(chain)):
        a, b = chain[i - 1].end, chain[i].start
        if (a.x, a.y) != (b.x, b.y):
            ctx.violation("chain-join-gap/%s" % to, "%s: curve %d ends at %s, curve %d starts at %s" % (what, i - 1, (a.x, a.y), i, (b.x, b.y)), monitor="chain-joins")
            return None
    # residual against the ellipse and winding about the centre
    ctx.mon("ellipse-residual")
    worst = 0.0
    wind = 0.0
    prev = None
    cs, sn = math.cos(phi), math.sin(phi)
    for seg in chain:
        for j in range(17):
            if len(chain) > 24 and j % 2:
                continue
            p = seg.point(j / 16.0)
            d, _ = dist_to_ellipse((p.x, p.y), c, rx, ry, phi)
            worst = max(worst, d)
            dx, dy = p.x - c[0], p.y - c[1]
            ang = math.atan2((-sn * dx + cs * dy) / ry, (cs * dx + sn * dy) / rx)
            if prev is not None:
                da = ang - prev
                while da > math.pi:
                    da -= 2 * math.pi
                while da < -math.pi:
                    da += 2 * math.pi
                wind += da
            prev = ang
    rel = worst / big
    ctx.maxval("unit_circle_deviation_%s" % to, unit_dev(arc, chain))
    if check_error:
        if ctx.see("residual-%s" % to, rel / limit) > 1:
            ctx.violation("ellipse-residual/%s" % to, "%s: chain deviates from the arc's ellipse by %.3g of its larger radius (limit %g); rx=%r ry=%r sweep=%r, %d curves" % (what, rel, limit, rx, ry, arc.sweep, len(chain)), monitor="ellipse-residual")
            return None
        ctx.mon("winding")
        # orientation of the stored axes decides the sign of the parameter direction
        orient = 1.0 if ((arc.prx.x - c[0]) * (arc.pry.y - c[1]) - (arc.prx.y - c[1]) * (arc.pry.x - c[0])) >= 0 else -1.0
        if abs(wind - arc.sweep * 1.0) > 1e-3 and abs(wind - arc.sweep * orient) > 1e-3:
            ctx.violation("winding/%s" % to, "%s: the chain winds %.6f rad about the centre, the arc's sweep is %.6f" % (what, wind, arc.sweep), monitor="winding")
            return None
    return rel


def unit_dev(arc, chain):
    """largest | |q| - 1 | of chain points mapped into the arc's unit-circle space (depends on the slice angle only)"""
    c, rx, ry, phi = _ellipse(arc)
    cs, sn = math.cos(phi), math.sin(phi)
    w = 0.0
    for seg in chain:
        for j in range(17):
            p = seg.point(j / 16.0)
            dx, dy = p.x - c[0], p.y - c[1]
            w = max(w, abs(math.hypot((cs * dx + sn * dy) / rx, (-sn * dx + cs * dy) / ry) - 1.0))
    return w


def _convert(arc, to, n=None):
    return list(arc.as_cubic_curves(n) if to == "cubic" else arc.as_quad_curves(n))


def run_case(S, case, ctx):
    st = case["stratum"]
    to = case["to"]
    limit = D_CUBIC if to == "cubic" else D_QUAD
    if st in ("alone-default", "alone-explicit"):
        arc = GG.build_segment(S, case["arc"])
        if "matrix" in case:
            arc *= S.Matrix(*case["matrix"])
        snap = repr(arc)
        what = "%s.as_%s_curves(%s)" % (snap, to, case.get("n", ""))
        n = case.get("n")
        try:
            chain = _convert(arc, to, n)
        except Exception as e:
            ctx.violation("conversion-raises/%s/%s" % (type(e).__name__, to), "%s: %r" % (what, e), monitor="chain-endpoints")
            return
        if repr(arc) != snap:
            ctx.violation("arc-modified-by-conversion", "%s changed the arc" % what, monitor="chain-endpoints")
        default_n = int(math.ceil(abs(arc.sweep) / (2 * math.pi / 12.0)))
        fine_enough = n is None or n >= default_n
        rel = measure_chain(S, ctx, arc, chain, what, limit, to, check_error=fine_enough)
        if rel is None:
            return
        # a finer subdivision must not be worse (slices of at most a quarter turn, where the formulas are meant to work)
        n0 = n if n is not None else default_n
        if n0 >= 1 and abs(arc.sweep) / n0 <= math.pi / 2 and n0 <= 64:
            ctx.mon("refinement")
            chain2 = _convert(arc, to, 2 * n0)
            if measure_chain(S, ctx, arc, chain2, "%s refined to %d" % (what, 2 * n0), limit, to, check_error=2 * n0 >= default_n) is None:
                return
            # compared in the arc's unit-circle space, where the error of the construction depends on the slice
            # angle alone (in the plane an eccentric ellipse moves the place of the largest deviation around)
            u1, u2 = unit_dev(arc, chain), unit_dev(arc, chain2)
            c_, rx, ry, _ = _ellipse(arc)
            floor = 1e-12 * (1 + max(abs(c_[0]), abs(c_[1])) / min(rx, ry))
            if u2 > u1 * 1.02 + floor:
                ctx.violation("refinement-not-monotone/%s" % to, "%s: unit-circle deviation %.3g with %d curves but %.3g with %d" % (what, u1, n0, u2, 2 * n0), monitor="refinement")
        return
    if st == "zero-extent":
        arc = GG.build_segment(S, case["arc"])
        ctx.mon("chain-endpoints")
        for t2 in ("cubic", "quad"):
            ch = _convert(arc, t2)
            if ch:
                ctx.violation("zero-extent-yields-curves/%s" % t2, "%r gave %d curves" % (arc, len(ch)), monitor="chain-endpoints")
                return
        if case.get("embedded"):
            s = case["arc"]["arc"][:2]
            p = S.Path(S.Move(S.Point(*s)), S.Line(S.Point(*s), S.Point(s[0] + 3, s[1] + 1)), S.Line(S.Point(s[0] + 3, s[1] + 1), S.Point(*s)), arc, S.Line(S.Point(*s), S.Point(s[0] - 2, s[1])))
            before = [repr(x) for x in p if not isinstance(x, S.Arc)]
            (p.approximate_arcs_with_cubics if to == "cubic" else p.approximate_arcs_with_quads)()
            ctx.mon("rest-untouched")
            if [repr(x) for x in p] != before:
                ctx.violation("zero-extent/rest-of-path-changed", "removing a zero-extent arc changed the path: %s" % p.d(), monitor="rest-untouched")
        return
    if st == "zero-radius":
        a = case["arc"]["arc"]
        arc = GG.build_segment(S, case["arc"])
        p = S.Path(S.Move(S.Point(a[0] - 5, a[1])), S.Line(S.Point(a[0] - 5, a[1]), S.Point(a[0], a[1])), arc, S.Line(S.Point(a[7], a[8]), S.Point(a[7], a[8] + 4)))
        pts_before = [(x.end.x, x.end.y) for x in p]
        try:
            (p.approximate_arcs_with_cubics if to == "cubic" else p.approximate_arcs_with_quads)()
        except Exception as e:
            ctx.violation("conversion-raises/%s/zero-radius" % type(e).__name__, "%r" % e, monitor="rest-untouched")
            return
        ctx.mon("rest-untouched")
        last = p[-1]
        if (last.start.x, last.start.y) != (a[7], a[8]) or (last.end.x, last.end.y) != (a[7], a[8] + 4):
            ctx.violation("zero-radius-arc/rest-of-path-moved", "converting a zero-radius arc (a straight line from %s to %s) moved the following segment: %s" % (a[:2], a[7:9], p.d()), monitor="rest-untouched")
        return
    # embedded
    path = GG.build_path(S, case["path"])
    orig = [copy(s) for s in path]
    err = case["error"]
    d0 = path.d()
    what = "Path(%s).approximate_arcs_with_%ss(error=%g)" % (d0, to, err)
    try:
        (path.approximate_arcs_with_cubics if to == "cubic" else path.approximate_arcs_with_quads)(error=err)
    except Exception as e:
        ctx.violation("conversion-raises/%s/embedded" % type(e).__name__, "%s: %r" % (what, e), monitor="chain-endpoints")
        return
    res = list(path)
    if any(isinstance(s, S.Arc) for s in res):
        k = [i for i, s in enumerate(orig) if isinstance(s, S.Arc)]
        left = [i for i, s in enumerate(res) if isinstance(s, S.Arc)]
        ctx.violation("arc-left-in-path/%s" % case["where"], "%s: an Arc is still present at result index %s (arcs were at %s)" % (what, left, k), monitor="rest-untouched")
        return
    want = S.CubicBezier if to == "cubic" else S.QuadraticBezier
    j = 0
    ctx.mon("rest-untouched")
    for i, seg in enumerate(orig):
        if isinstance(seg, S.Arc):
            chain = []
            while j < len(res) and type(res[j]) is want:
                chain.append(res[j])
                j += 1
            per = 2 * math.pi * err
            # at the default error setting (0.1) or a finer one the bound is the library's responsibility,
            # whatever subdivision it chooses
            fine = err <= 0.1 or abs(seg.sweep) / max(1, len(chain)) <= 2 * math.pi / 12.0 * 1.0001
            rel = measure_chain(S, ctx, seg, chain, "%s, arc at %d" % (what, i), D_CUBIC if to == "cubic" else D_QUAD, to, check_error=fine)
            if rel is None:
                return
        else:
            if j >= len(res):
                ctx.violation("rest-of-path-changed/missing", "%s: original segment %d (%r) is missing" % (what, i, seg), monitor="rest-untouched")
                return
            got = res[j]
            j += 1
            same = type(got) is type(seg) and (got.end.x, got.end.y) == (seg.end.x, seg.end.y) and (
                seg.start is None or i == 0 or (got.start.x, got.start.y) == (seg.start.x, seg.start.y))
            if not same:
                ctx.violation("rest-of-path-changed/%s" % type(seg).__name__, "%s: original segment %d %r became %r" % (what, i, seg, got), monitor="rest-untouched")
                return
    if j != len(res):
        ctx.violation("rest-of-path-changed/extra", "%s: %d surplus segments" % (what, len(res) - j), monitor="rest-untouched")
        return
    msg = monitors.check_path_links(S, path)
    if msg:
        ctx.violation("disconnected-after-conversion", "%s: %s" % (what, msg), monitor="rest-untouched")
