"""C04 - transform strings and Matrix algebra follow SVG/CSS transform semantics."""
import math

from ..gen import transforms as G
from ..gen.numbers import coord
from ..num import IDENT, b_affine, m_apply, m_cond, m_det, m_inv, m_mul, m_norm, m_of, mag
from ..ref import matref

ID = "C04"
RULE = (
    "abstract transform lists (0-8 functions over matrix/translate[XY]/scale[XY]/rotate[+centre]/skew[XY], optional "
    "arguments present or omitted) spelled with random letter case, separators, number spellings and units, compared "
    "entry-wise and on probe points with an independent 3x3 evaluator; plus random invertible matrices for the algebra "
    "laws. A case is non-trivial when its list is non-empty (or it is an algebra case); distinct = distinct case digest."
)
BUDGET = {"quick": 24000, "thorough": 1200000}
TIME_CAP = {"quick": 240, "thorough": 1500}
ANCHORS = [
    "Matrix.parse", "Matrix.render", "Matrix.pre_cat", "Matrix.post_cat", "Matrix.pre_scale", "Matrix.pre_rotate",
    "Matrix.pre_skew", "Matrix.pre_translate", "Matrix.post_scale", "Matrix.post_rotate", "Matrix.post_skew",
    "Matrix.post_translate", "Matrix.matrix_multiply", "Matrix.inverse", "Matrix.__matmul__",
    "Matrix.__imatmul__", "Matrix.__invert__", "Angle.parse", "Matrix.scale", "Matrix.translate", "Matrix.rotate",
    "Matrix.skew", "Matrix.point_in_matrix_space",
]
REQUIRED_MONITORS = ["list-vs-reference", "point-application", "assoc", "inverse", "prepost", "identity-neutral"]

STRATA = [
    ("list", 40), ("noncommuting", 12), ("rotate-centre", 8), ("single-arg", 8), ("skew-one-arg", 3),
    ("symbolic-ppi", 6), ("symbolic-percent", 5), ("symbolic-mixed", 4), ("ctor-kwargs", 4), ("algebra", 12), ("prepost", 8),
]
_W = [w for _, w in STRATA]
_N = [n for n, _ in STRATA]


def strata_minimum(tier):
    f = 1 if tier == "quick" else 20
    return {n: 30 * f for n in _N}


def nontrivial(case):
    return case["stratum"] in ("algebra", "prepost") or len(case.get("fns", [])) > 0


def gen_case(R, index, tier):
    st = R.choices(_N, _W)[0]
    case = {"stratum": st}
    if st == "list":
        case["fns"] = [G.fn(R) for _ in range(R.randint(0, 8))]
    elif st == "noncommuting":
        pair = R.choice([("rotate", "translate"), ("translate", "rotate"), ("skewx", "scale"), ("scale", "skewy"),
                         ("rotatec", "scale"), ("scale", "translate"), ("translate", "scale"), ("skew", "rotate"),
                         ("matrix", "translate"), ("translate", "matrix")])
        fns = [G.fn(R) for _ in range(R.randint(0, 3))]
        fns += [G.fn(R, pair[0]), G.fn(R, pair[1])]
        fns += [G.fn(R) for _ in range(R.randint(0, 3))]
        case["fns"] = fns
    elif st == "rotate-centre":
        fns = [G.fn(R) for _ in range(R.randint(0, 2))] + [G.fn(R, "rotatec")] + [G.fn(R) for _ in range(R.randint(0, 2))]
        case["fns"] = fns
    elif st == "single-arg":
        fns = [G.fn(R, R.choice(["translate1", "scale1"])) for _ in range(R.randint(1, 3))]
        R.shuffle(fns)
        case["fns"] = fns + [G.fn(R) for _ in range(R.randint(0, 2))]
    elif st == "skew-one-arg":
        case["fns"] = [G.fn(R) for _ in range(R.randint(0, 2))] + [G.fn(R, "skew1")] + [G.fn(R) for _ in range(R.randint(0, 2))]
    elif st in ("symbolic-ppi", "symbolic-percent"):
        units = G.LEN_PPI if st == "symbolic-ppi" else ["%"]
        fam = [R.choice(units)] if st == "symbolic-ppi" and R.random() < 0.5 else units
        fns = []
        for _ in range(R.randint(1, 4)):
            k = R.choice(["translate", "translate1", "translatex", "translatey", "scale", "scale1", "scalex"])
            fns.append(G.fn(R, k, units=fam))
        if not any(f["fn"].lower().startswith("translate") for f in fns):
            fns.append(G.fn(R, "translate", units=fam))
        case["fns"] = fns
        case["ppi"] = R.choice([72.0, 96.0, 100.0, 254.0])
        case["width"] = R.choice([100.0, 640.0, 33.5])
        case["height"] = R.choice([100.0, 480.0, 71.25])
    elif st == "symbolic-mixed":
        units = R.choice([G.LEN_PPI, ["%"]])
        fns = [G.fn(R, R.choice(["rotate", "translate", "skewx", "matrix", "rotatec"])),
               G.fn(R, R.choice(["translate", "translatex", "translatey"]), units=units)]
        if R.random() < 0.5:
            fns.reverse()
        case["fns"] = fns + [G.fn(R) for _ in range(R.randint(0, 2))]
        case["ppi"] = R.choice([72.0, 96.0, 254.0])
        case["width"] = R.choice([100.0, 640.0])
        case["height"] = R.choice([100.0, 480.0])
    elif st == "ctor-kwargs":
        fns = [G.fn(R, R.choice(["translate", "translatex", "translatey"]), units=G.LEN_PPI + ["%"])]
        if R.random() < 0.5:
            fns.insert(R.randint(0, 1), G.fn(R, R.choice(["scale", "scale1"])))
        case["fns"] = fns
        case["ppi"] = R.choice([72.0, 96.0, 254.0])
        case["width"] = R.choice([100.0, 640.0])
        case["height"] = R.choice([100.0, 480.0])
    elif st == "algebra":
        case["A"] = list(G.affine(R)[1])
        case["B"] = list(G.affine(R)[1])
        case["C"] = list(G.affine(R)[1])
        case["p"] = [coord(R), coord(R)]
    elif st == "prepost":
        case["M"] = list(G.affine(R)[1])
        ops = []
        for _ in range(R.randint(1, 4)):
            k = R.choice(["scale", "scale1", "scale_x", "scale_y", "scalec", "translate", "translate_x", "translate_y",
                          "rotate", "rotatec", "skew", "skew_x", "skew_y", "skewc", "cat"])
            side = R.choice(["pre", "post"])
            if k == "scale":
                args = [G._scale(R), G._scale(R)]
            elif k in ("scale1", "scale_x", "scale_y"):
                args = [G._scale(R)]
            elif k == "scalec":
                args = [G._scale(R), G._scale(R), coord(R, False), coord(R, False)]
            elif k == "translate":
                args = [coord(R, False), coord(R, False)]
            elif k in ("translate_x", "translate_y"):
                args = [coord(R, False)]
            elif k == "rotate":
                args = [R.uniform(-7, 7)]
            elif k == "rotatec":
                args = [R.uniform(-7, 7), coord(R, False), coord(R, False)]
            elif k == "skew":
                args = [R.uniform(-1.2, 1.2), R.uniform(-1.2, 1.2)]
            elif k in ("skew_x", "skew_y"):
                args = [R.uniform(-1.2, 1.2)]
            elif k == "skewc":
                args = [R.uniform(-1.2, 1.2), R.uniform(-1.2, 1.2), coord(R, False), coord(R, False)]
            else:
                args = list(G.affine(R)[1])
            ops.append([side, k, args])
        case["ops"] = ops
    if "fns" in case:
        case["text"] = G.spell_list(R, case["fns"])
        case["probe"] = [[coord(R), coord(R)] for _ in range(3)]
    return case


def shrink_candidates(case):
    if "fns" in case:
        fns = case["fns"]
        for i in range(len(fns)):
            c = dict(case)
            c["fns"] = fns[:i] + fns[i + 1:]
            c["text"] = G.spell_list(None, c["fns"], plain=True)
            yield c
        c = dict(case)
        c["text"] = G.spell_list(None, fns, plain=True)
        if c["text"] != case["text"]:
            yield c


def _cmp_matrix(ctx, got, ref, kind, rel=1e-12):
    S = mag(ref, got, floor=1.0)
    dev = max(abs(g - r) for g, r in zip(got, ref))
    return ctx.see(kind, dev / (rel * 64 * S))


def _elementary(k, args):
    if k == "scale":
        return matref.Sc(args[0], args[1])
    if k == "scale1":
        return matref.Sc(args[0], args[0])
    if k == "scale_x":
        return matref.Sc(args[0], 1.0)
    if k == "scale_y":
        return matref.Sc(1.0, args[0])
    if k == "scalec":
        return matref.about(matref.Sc(args[0], args[1]), args[2], args[3])
    if k == "translate":
        return matref.T(args[0], args[1])
    if k == "translate_x":
        return matref.T(args[0], 0.0)
    if k == "translate_y":
        return matref.T(0.0, args[0])
    if k == "rotate":
        return matref.Rot(args[0])
    if k == "rotatec":
        return matref.about(matref.Rot(args[0]), args[1], args[2])
    if k == "skew":
        return matref.Sk(args[0], args[1])
    if k == "skew_x":
        return matref.Sk(args[0], 0.0)
    if k == "skew_y":
        return matref.Sk(0.0, args[0])
    if k == "skewc":
        return matref.about(matref.Sk(args[0], args[1]), args[2], args[3])
    if k == "cat":
        return tuple(args)
    raise ValueError(k)


def _call(M, side, k, args):
    name = {"scale1": "scale", "scalec": "scale", "rotatec": "rotate", "skewc": "skew"}.get(k, k)
    getattr(M, "%s_%s" % (side, name))(*args)


def run_case(S, case, ctx):
    st = case["stratum"]
    if "fns" in case:
        return _run_list(S, case, ctx)
    if st == "algebra":
        return _run_algebra(S, case, ctx)
    if st == "prepost":
        return _run_prepost(S, case, ctx)


def _feature(case):
    names = sorted(set(f["fn"].lower() for f in case["fns"]))
    return "+".join(names) if len(names) <= 2 else "%d-kinds" % len(names)


def _run_list(S, case, ctx):
    st = case["stratum"]
    text = case["text"]
    ppi, w, h = case.get("ppi"), case.get("width"), case.get("height")
    symbolic = st.startswith("symbolic") or st == "ctor-kwargs"
    ref = matref.list_matrix(case["fns"], ppi, w, h)
    ctx.mon("list-vs-reference")
    try:
        if st == "ctor-kwargs":
            M = S.Matrix(text, ppi=ppi, width=w, height=h)
        else:
            M = S.Matrix(text)
            if symbolic:
                M.render(ppi=ppi, width=w, height=h)
    except ValueError as e:
        if st == "symbolic-mixed":
            ctx.violation("symbolic-translate-mixed/ValueError",
                          "Matrix(%r) raises ValueError: a translate in in/cm/mm/%% cannot be combined with another offset before render" % text,
                          monitor="list-vs-reference")
            return
        ctx.violation("parse-raises/%s/%s" % (type(e).__name__, st), "Matrix(%r): %r" % (text, e), monitor="list-vs-reference")
        return
    except Exception as e:
        ctx.violation("parse-raises/%s/%s" % (type(e).__name__, st), "Matrix(%r): %r" % (text, e), monitor="list-vs-reference")
        return
    try:
        got = m_of(M)
    except Exception as e:
        ctx.violation("unresolved-after-render/%s" % st, "Matrix(%r).render(ppi=%s,width=%s,height=%s) -> %r" % (text, ppi, w, h, M), monitor="list-vs-reference")
        return
    # the library's in/cm/mm constants carry 6 significant digits (pinned by its tests); the bound is relative to
    # the *operands* (resolved offsets times the norms of the other functions), not to a possibly cancelling sum
    six = symbolic and any(a[1] in ("in", "cm", "mm") for f in case["fns"] for a in f["args"])
    rel = 2e-6 / 64 if six else 1e-12
    extra = 0.0
    if six:
        mats = [matref.fn_matrix(f, ppi, w, h) for f in case["fns"]]
        normprod = 1.0
        for m in mats:
            normprod *= max(1.0, m_norm(m))
        extra = sum(abs(m[4]) + abs(m[5]) for m in mats) * normprod
    S0 = mag(ref, got, floor=1.0) + extra
    dev = max(abs(g - r) for g, r in zip(got, ref))
    ratio = ctx.see("list-entries" + ("-6digit-constants" if six else ""), dev / (rel * 64 * S0))
    if ratio > 1:
        if any(f["fn"] == "skew" and len(f["args"]) == 1 for f in case["fns"]):
            # is it exactly "the one-argument skew was dropped"?
            ref2 = matref.list_matrix([f for f in case["fns"] if not (f["fn"] == "skew" and len(f["args"]) == 1)], ppi, w, h)
            if _cmp_matrix(ctx, got, ref2, "aux", rel) <= 1:
                ctx.violation("skew-with-one-argument-ignored", "Matrix(%r) = %s, expected %s (CSS: skew(a) = skew(a, 0))" % (text, got, ref), monitor="list-vs-reference")
                return
        if st == "symbolic-mixed" and w != h and any(a[1] == "%" for f in case["fns"] for a in f["args"]):
            # mechanism: a percentage offset that passed through a non-diagonal function is kept as ONE
            # percentage per matrix entry, so x-percentages end up resolved against the height and vice versa
            alt_e = matref.list_matrix(case["fns"], ppi, w, w)[4]
            alt_f = matref.list_matrix(case["fns"], ppi, h, h)[5]
            alt = ref[:4] + (alt_e, alt_f)
            if _cmp_matrix(ctx, got, alt, "aux", rel) <= 1:
                ctx.violation("symbolic-translate-mixed/percent-axes-combined",
                              "Matrix(%r).render(width=%s,height=%s) = %s, reference %s" % (text, w, h, got, ref), monitor="list-vs-reference")
                return
        ctx.violation("list-matrix-mismatch/%s" % _feature(case), "Matrix(%r) = %s, reference %s" % (text, got, ref), monitor="list-vs-reference", got=got, ref=ref)
        return
    # application to points
    for p in case["probe"]:
        ctx.mon("point-application")
        q = S.Point(p[0], p[1]) * M
        e = m_apply(ref, p)
        Sm = mag(p, e, ref[4], ref[5], floor=1.0) + extra
        bound = (rel * 64) * 4 * Sm * max(1.0, m_norm(ref))
        r = ctx.see("point-application", math.hypot(q.x - e[0], q.y - e[1]) / bound)
        if r > 1:
            ctx.violation("point-application-mismatch", "Point%s * Matrix(%r) = %s, reference %s" % (tuple(p), text, (q.x, q.y), e), monitor="point-application")
            return
    if st in ("list", "noncommuting", "rotate-centre", "single-arg"):
        # the same list given to a Point directly and in upper case
        ctx.mon("string-operand")
        p = case["probe"][0]
        q = S.Point(p[0], p[1]) * text
        e = m_apply(ref, p)
        Sm = mag(p, e, ref[4], ref[5], floor=1.0)
        if math.hypot(q.x - e[0], q.y - e[1]) > 64e-12 * 4 * Sm * max(1.0, m_norm(ref)):
            ctx.violation("point-times-string-mismatch", "Point%s * %r = %s, reference %s" % (tuple(p), text, (q.x, q.y), e), monitor="string-operand")


def _mk(S, t):
    return S.Matrix(*t)


def _run_algebra(S, case, ctx):
    A, B, C, p = tuple(case["A"]), tuple(case["B"]), tuple(case["C"]), case["p"]
    MA, MB, MC = _mk(S, A), _mk(S, B), _mk(S, C)
    P = S.Point(p[0], p[1])
    snap = (m_of(MA), m_of(MB), (P.x, P.y))
    # p*(A*B) == (p*A)*B
    ctx.mon("assoc")
    lhs = P * (MA * MB)
    rhs = (P * MA) * MB
    e = m_apply(B, m_apply(A, p))
    Sm = mag(p, e, A[4], A[5], B[4], B[5], floor=1.0) * max(1.0, m_norm(A)) * max(1.0, m_norm(B))
    bound = 1e-12 * Sm
    r = ctx.see("assoc", max(math.hypot(lhs.x - rhs.x, lhs.y - rhs.y), math.hypot(lhs.x - e[0], lhs.y - e[1]), math.hypot(rhs.x - e[0], rhs.y - e[1])) / bound)
    if r > 1:
        ctx.violation("composition-disagrees-with-application", "p=%s A=%s B=%s: p*(A*B)=%s (p*A)*B=%s reference %s" % (p, A, B, (lhs.x, lhs.y), (rhs.x, rhs.y), e), monitor="assoc")
    # (A*B)*C == A*(B*C), also through @ and in-place
    ctx.mon("assoc")
    l3 = m_of((MA * MB) * MC)
    r3 = m_of(MA * (MB * MC))
    e3 = m_mul(m_mul(A, B), C)
    if _cmp_matrix(ctx, l3, e3, "assoc3") > 1 or _cmp_matrix(ctx, r3, e3, "assoc3") > 1:
        ctx.violation("matrix-product-mismatch", "A=%s B=%s C=%s (A*B)*C=%s A*(B*C)=%s ref=%s" % (A, B, C, l3, r3, e3), monitor="assoc")
    M2 = _mk(S, A)
    M2 *= MB
    M3 = MA @ MB
    if _cmp_matrix(ctx, m_of(M2), m_mul(A, B), "imul") > 1 or _cmp_matrix(ctx, m_of(M3), m_mul(A, B), "imul") > 1:
        ctx.violation("in-place-or-matmul-product-mismatch", "A=%s B=%s A*=B -> %s, A@B -> %s, ref %s" % (A, B, m_of(M2), m_of(M3), m_mul(A, B)), monitor="assoc")
    # operands untouched by the non in-place operators
    ctx.mon("operands-unchanged")
    if (m_of(MA), m_of(MB), (P.x, P.y)) != snap:
        ctx.violation("operator-modified-operand", "after p*(A*B), (p*A)*B, A@B: A=%s B=%s p=%s were %s" % (m_of(MA), m_of(MB), (P.x, P.y), snap), monitor="operands-unchanged")
    # inverse
    ctx.mon("inverse")
    try:
        inv = ~MA
    except Exception as e:
        ctx.violation("inverse-raises/%s" % type(e).__name__, "~Matrix%s: %r" % (A, e), monitor="inverse")
        return
    k = m_cond(A)
    one = m_of(inv * MA)
    two = m_of(MA * inv)
    tr = mag(A[4], A[5], floor=1.0)
    dev = max(max(abs(g - i) for g, i in zip(one[:4], IDENT[:4])), max(abs(g - i) for g, i in zip(two[:4], IDENT[:4])))
    devt = max(abs(one[4]), abs(one[5]), abs(two[4]), abs(two[5]))
    r = ctx.see("inverse", max(dev / (1e-13 * 64 * k), devt / (1e-13 * 64 * k * tr * max(1.0, 1.0 / abs(m_det(A)) ** 0.5, m_norm(A)))))
    if r > 1:
        ctx.violation("inverse-not-two-sided", "A=%s cond=%.3g: ~A*A=%s A*~A=%s" % (A, k, one, two), monitor="inverse")
    if m_of(MA) != snap[0]:
        ctx.violation("operator-modified-operand", "~A changed A", monitor="inverse")
    ref_inv = m_inv(A)
    if _cmp_matrix(ctx, m_of(inv), ref_inv, "inverse-entries", 1e-13 * k) > 1:
        ctx.violation("inverse-entries-mismatch", "~Matrix%s = %s, reference %s" % (A, m_of(inv), ref_inv), monitor="inverse")
    # identity neutral
    ctx.mon("identity-neutral")
    I = S.Matrix()
    I2 = S.Matrix.identity()
    if m_of(I * MA) != A or m_of(MA * I) != A or m_of(I2 * MA) != A or not I.is_identity():
        ctx.violation("identity-not-neutral", "I*A=%s A*I=%s A=%s" % (m_of(I * MA), m_of(MA * I), A), monitor="identity-neutral")
    q = P * I
    if (q.x, q.y) != (P.x, P.y):
        ctx.violation("identity-not-neutral", "p*I=%s p=%s" % ((q.x, q.y), p), monitor="identity-neutral")


def _run_prepost(S, case, ctx):
    M0 = tuple(case["M"])
    M = _mk(S, M0)
    ref = M0
    for side, k, args in case["ops"]:
        ctx.mon("prepost")
        X = _elementary(k, args)
        ref = m_mul(X, ref) if side == "pre" else m_mul(ref, X)
        try:
            _call(M, side, k, args)
        except Exception as e:
            ctx.violation("prepost-raises/%s/%s_%s" % (type(e).__name__, side, k), "%s_%s%s on %s: %r" % (side, k, tuple(args), M0, e), monitor="prepost")
            return
        got = m_of(M)
        if _cmp_matrix(ctx, got, ref, "prepost", 1e-12) > 1:
            ctx.violation("prepost-mismatch/%s_%s" % (side, {"scale1": "scale", "scalec": "scale-centre", "rotatec": "rotate-centre", "skewc": "skew-centre"}.get(k, k)),
                          "Matrix%s after %s: %s, reference %s (pre_ = left factor applied first, post_ = right factor)" % (M0, case["ops"], got, ref), monitor="prepost")
            return
