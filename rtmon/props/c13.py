"""C13 - colour spellings denote their CSS/SVG RGBA values; accessors are consistent."""
import colorsys
import math

from ..ref import colorref as C

ID = "C13"
RULE = (
    "exhaustive: the 147 keywords + transparent in lower / upper / mixed case and with inner spaces, all 4096 #rgb and 65536 #rgba "
    "strings, every channel value 0..255 through each single-component setter on 64 base colours; sampled: #rrggbb, #rrggbbaa, "
    "rgb()/rgba() with integers in and out of range and negative, percentages (fractional, >100, <0), optional alpha in and out of "
    "[0,1], hsl()/hsla() with hue in [-720,1080], negative and >100 saturation / lightness, none; random 32-bit RGBA values for the "
    "packings rgb / bgr / argb / rgba, opacity, hex round trip, hue / saturation / lightness getters against colorsys and setters "
    "against 'only that component changes'. Non-trivial = not a repeated value."
)
BUDGET = {"quick": 60000, "thorough": 2400000}
TIME_CAP = {"quick": 240, "thorough": 1500}
ANCHORS = ["Color.parse", "Color.parse_color_lookup", "Color.parse_color_hex", "Color.parse_color_rgb", "Color.parse_color_rgbp", "Color.parse_color_hsl",
           "Color.rgb_to_int", "Color.hsl_to_int", "Color.crimp", "Color.__eq__", "Color.hue", "Color.saturation", "Color.lightness"]
REQUIRED_MONITORS = ["keyword", "hex3", "hex4", "hex6-8", "rgb-function", "hsl-function", "hex-round-trip", "packings", "component-setters", "hsl-accessors"]


def strata_minimum(tier):
    f = 1 if tier == "quick" else 20
    return {"hex": 8000 * f, "rgb": 8000 * f, "rgbp": 6000 * f, "hsl": 8000 * f, "accessors": 12000 * f, "hsl-setters": 6000 * f}


def nontrivial(case):
    return True


def gen_case(R, index, tier):
    k = R.random()
    if k < 0.16:
        n = R.choice([6, 8])
        return {"stratum": "hex", "text": ("#" if R.random() < 0.9 else "") + "".join(R.choice("0123456789abcdefABCDEF") for _ in range(n))}
    if k < 0.34:
        iv = lambda: R.choice([0, 255, 128, R.randint(0, 255), R.randint(-300, 600), 256, -1])
        a = R.choice([None, None, 0, 1, 0.5, round(R.uniform(-0.5, 1.5), 3), 0.004, 1.0, 2])
        return {"stratum": "rgb", "v": [iv(), iv(), iv()], "a": a, "sp": R.choice(["", " ", "  "])}
    if k < 0.48:
        pv = lambda: R.choice([0.0, 100.0, 50.0, round(R.uniform(0, 100), 2), round(R.uniform(-50, 180), 1), 33.333, 0.2, 99.8])
        a = R.choice([None, None, 0, 1, 0.25, round(R.uniform(-0.5, 1.5), 3)])
        return {"stratum": "rgbp", "v": [pv(), pv(), pv()], "a": a, "sp": R.choice(["", " "])}
    if k < 0.66:
        h = R.choice([0, 60, 120, 180, 240, 300, 360, -120, 480, 720, -720, 1080, round(R.uniform(-720, 1080), 2), R.randint(-720, 1080)])
        s = R.choice([0.0, 100.0, 50.0, round(R.uniform(0, 100), 1), -20.0, 130.0])
        l = R.choice([0.0, 100.0, 50.0, 25.0, 75.0, round(R.uniform(0, 100), 1), -10.0, 120.0])
        a = R.choice([None, None, 0, 1, 0.3, round(R.uniform(-0.5, 1.5), 3)])
        return {"stratum": "hsl", "h": h, "s": s, "l": l, "a": a}
    if k < 0.88:
        return {"stratum": "accessors", "v": R.choice([R.randrange(1 << 32), R.randrange(1 << 32), 0, 0xFF, 0xFFFFFFFF, 0x000000FF, R.randrange(1 << 24) << 8])}
    return {"stratum": "hsl-setters", "v": R.randrange(1 << 32), "h": round(R.uniform(0, 359.9), 2), "s": round(R.random(), 3), "l": round(R.uniform(0.02, 0.98), 3)}


def chan(v):
    return ((v >> 24) & 255, (v >> 16) & 255, (v >> 8) & 255, v & 255)


def _near(got, want, tol=1):
    return all(abs(g - w) <= tol + 1e-9 for g, w in zip(got, want))


def check_spelling(S, ctx, text, want, monitor, key, tol=0):
    """Color(text) must denote want = (r, g, b, a) (floats allowed with tol=1 for rounding / truncation)"""
    ctx.mon(monitor)
    try:
        c = S.Color(text)
    except Exception as e:
        ctx.violation("%s/raises-%s" % (key, type(e).__name__), "Color(%r): %r" % (text, e), monitor=monitor)
        return None
    if c.value is None:
        ctx.violation("%s/none" % key, "Color(%r) is none" % text, monitor=monitor)
        return None
    got = chan(c.value)
    if not _near(got, want, tol):
        ctx.violation(key, "Color(%r) = %s (r,g,b,a), the specification gives %s" % (text, got, tuple(round(w, 2) for w in want)), monitor=monitor)
        return None
    return c


def run_case(S, case, ctx):
    st = case["stratum"]
    if st == "hex":
        t = case["text"]
        h = t.lstrip("#")
        v = int(h, 16)
        want = chan(v) if len(h) == 8 else chan((v << 8) | 0xFF)
        check_spelling(S, ctx, t, want, "hex6-8", "hex/%d-digits" % len(h))
        return
    if st in ("rgb", "rgbp"):
        v, a, sp = case["v"], case["a"], case["sp"]
        pct = "%" if st == "rgbp" else ""
        fn = "rgb" if a is None or len(str(a)) % 2 else "rgba"
        args = [("%r%s" % (x, pct)) for x in v] + ([repr(a)] if a is not None else [])
        if a is not None:
            fn = "rgba"
        text = "%s(%s%s)" % (fn, sp, ("," + sp).join(args))
        if st == "rgb":
            want = C.rgb_int(*v)
            tol = 0
        else:
            want = C.rgb_percent(*v)
            tol = 1
        want = tuple(want) + (C.alpha(a) if a is not None else 255.0,)
        feat = "out-of-range" if any(x < 0 or x > (100 if pct else 255) for x in v) else "in-range"
        ok = ctx.mon  # noqa
        c = None
        ctx.mon("rgb-function")
        try:
            c = S.Color(text)
        except Exception as e:
            ctx.violation("rgb-function/raises-%s/%s" % (type(e).__name__, "percent" if pct else "integer"), "Color(%r): %r" % (text, e), monitor="rgb-function")
            return
        got = chan(c.value) if c.value is not None else None
        if got is None or not _near(got[:3], want[:3], tol):
            ctx.violation("rgb-function/%s/%s" % ("percent" if pct else "integer", feat), "Color(%r) = %s, the specification gives %s" % (text, got, tuple(round(w, 2) for w in want)), monitor="rgb-function")
            return
        if abs(got[3] - want[3]) > 1:
            ctx.violation("rgb-function/alpha/%s" % ("out-of-range" if a is not None and (a < 0 or a > 1) else "in-range"), "Color(%r) alpha = %s, expected %s" % (text, got[3], round(want[3], 2)), monitor="rgb-function")
        return
    if st == "hsl":
        h, s, l, a = case["h"], case["s"], case["l"], case["a"]
        fn = "hsla" if a is not None else "hsl"
        text = "%s(%r, %r%%, %r%%%s)" % (fn, h, s, l, (", %r" % a) if a is not None else "")
        want = C.hsl(h, s, l) + (C.alpha(a) if a is not None else 255.0,)
        ctx.mon("hsl-function")
        try:
            c = S.Color(text)
        except Exception as e:
            ctx.violation("hsl-function/raises-%s" % type(e).__name__, "Color(%r): %r" % (text, e), monitor="hsl-function")
            return
        got = chan(c.value) if c.value is not None else None
        if got is None or not _near(got, want, 1):
            turn = "hue-in-first-turn" if 0 <= h < 360 else ("hue-within-one-turn-outside" if -360 <= h < 720 else "hue-beyond-one-turn-outside")
            rng = "" if (0 <= s <= 100 and 0 <= l <= 100) else "/s-or-l-out-of-range"
            ctx.violation("hsl-function/%s%s" % (turn, rng), "Color(%r) = %s, CSS gives %s" % (text, got, tuple(round(w, 2) for w in want)), monitor="hsl-function")
        return
    if st == "accessors":
        return _run_accessors(S, case, ctx)
    return _run_hsl_setters(S, case, ctx)


def _run_accessors(S, case, ctx):
    v = case["v"]
    r, g, b, a = chan(v)
    c = S.Color(rgba=v)
    # hex round trip
    ctx.mon("hex-round-trip")
    try:
        hx = c.hex
        back = S.Color(hx)
        if not (back == c) or back.value != v:
            ctx.violation("hex-round-trip", "Color(rgba=%#010x).hex = %r, Color(that) = %r" % (v, hx, back.value), monitor="hex-round-trip")
            return
        if str(c) != hx or S.Color(c.hexa).value != v or (S.Color(c.hexrgb).value >> 8) != (v >> 8):
            ctx.violation("hex-round-trip/variants", "Color(rgba=%#010x): str=%r hexa=%r hexrgb=%r" % (v, str(c), c.hexa, c.hexrgb), monitor="hex-round-trip")
            return
    except Exception as e:
        ctx.violation("hex-round-trip/raises-%s" % type(e).__name__, "Color(rgba=%#010x): %r" % (v, e), monitor="hex-round-trip")
        return
    # getters
    ctx.mon("packings")
    exp = {"red": r, "green": g, "blue": b, "alpha": a, "rgba": v, "rgb": v >> 8, "bgr": (b << 16) | (g << 8) | r, "argb": (a << 24) | (v >> 8)}
    for n, w in exp.items():
        if getattr(c, n) != w:
            ctx.violation("getter/%s" % n, "Color(rgba=%#010x).%s = %r, expected %r" % (v, n, getattr(c, n), w), monitor="packings")
            return
    if abs(c.opacity - a / 255.0) > 1e-12 or int(c) != v:
        ctx.violation("getter/opacity", "Color(rgba=%#010x).opacity = %r" % (v, c.opacity), monitor="packings")
        return
    # packed setters: what is written reads back; rgb/bgr define an opaque colour
    w = case["v"] ^ 0x5A5A5A5A
    for n, val, want in (("rgba", w, w), ("argb", ((w & 255) << 24) | (w >> 8), w), ("rgb", w >> 8, (w >> 8 << 8) | 0xFF), ("bgr", ((w >> 8 & 255) << 16) | ((w >> 16 & 255) << 8) | (w >> 24 & 255), (w >> 8 << 8) | 0xFF)):
        d = S.Color(rgba=v)
        setattr(d, n, val)
        if getattr(d, n) != val:
            ctx.violation("packed-setter-readback/%s" % n, "Color(rgba=%#010x).%s = %#x reads back %#x" % (v, n, val, getattr(d, n)), monitor="packings")
            return
        if d.value != want:
            ctx.violation("packed-setter-value/%s" % n, "Color(rgba=%#010x).%s = %#x gives %#010x, expected %#010x" % (v, n, val, d.value, want), monitor="packings")
            return
    # constructors
    if S.Color(r, g, b).value != ((v >> 8 << 8) | 0xFF) or S.Color(r, g, b, a).value != v or S.Color(v >> 8).value != ((v >> 8 << 8) | 0xFF) or S.Color(S.Color(rgba=v)).value != v:
        ctx.violation("constructor", "Color(%d,%d,%d[,%d]) / Color(int) / Color(Color) disagree with rgba=%#010x" % (r, g, b, a, v), monitor="packings")
        return
    # single component setters: only that component changes (one new value per case; the exhaustive sweep is separate)
    ctx.mon("component-setters")
    nv = (v >> 5) & 255
    for n, shift in (("red", 24), ("green", 16), ("blue", 8), ("alpha", 0)):
        d = S.Color(rgba=v)
        setattr(d, n, nv)
        want = (v & ~(255 << shift) & 0xFFFFFFFF) | (nv << shift)
        if d.value != want:
            ctx.violation("component-setter/%s" % n, "Color(rgba=%#010x).%s = %d gives %#010x, expected %#010x" % (v, n, nv, d.value, want), monitor="component-setters")
            return
    d = S.Color(rgba=v)
    d.opacity = nv / 255.0
    if d.value != ((v & 0xFFFFFF00) | nv):
        ctx.violation("component-setter/opacity", "Color(rgba=%#010x).opacity = %r gives %#010x" % (v, nv / 255.0, d.value), monitor="component-setters")
        return
    # hue / saturation / lightness getters against colorsys
    ctx.mon("hsl-accessors")
    hh, ll, ss = colorsys.rgb_to_hls(r / 255.0, g / 255.0, b / 255.0)
    try:
        gh, gs, gl = c.hue, c.saturation, c.lightness
    except Exception as e:
        ctx.violation("hsl-getter/raises-%s" % type(e).__name__, "Color(rgba=%#010x): %r" % (v, e), monitor="hsl-accessors")
        return
    dh = abs((float(gh) % 360.0) - hh * 360.0)
    dh = min(dh, 360.0 - dh)
    if (ss > 0 and dh > 1e-6) or abs(gs - ss) > 1e-9 or abs(gl - ll) > 1e-9:
        ctx.violation("hsl-getter", "Color(rgba=%#010x): hue %r sat %r light %r, colorsys gives %r %r %r" % (v, gh, gs, gl, hh * 360, ss, ll), monitor="hsl-accessors")


def _run_hsl_setters(S, case, ctx):
    v = case["v"]
    ctx.mon("hsl-accessors")
    r, g, b, a = chan(v)
    h0, l0, s0 = colorsys.rgb_to_hls(r / 255.0, g / 255.0, b / 255.0)
    for n, val in (("hue", case["h"]), ("saturation", case["s"]), ("lightness", case["l"])):
        d = S.Color(rgba=v)
        try:
            setattr(d, n, val)
        except Exception as e:
            ctx.violation("hsl-setter/raises-%s/%s" % (type(e).__name__, n), "Color(rgba=%#010x).%s = %r: %r" % (v, n, val, e), monitor="hsl-accessors")
            return
        want_h, want_s, want_l = h0 * 360.0, s0, l0
        if n == "hue":
            want_h = val
        elif n == "saturation":
            want_s = val
        else:
            want_l = val
        er, eg, eb = colorsys.hls_to_rgb((want_h % 360.0) / 360.0, want_l, want_s)
        want = (er * 255.0, eg * 255.0, eb * 255.0, float(a))
        got = chan(d.value)
        if got[3] != a:
            ctx.violation("hsl-setter/%s/alpha-changed" % n, "Color(rgba=%#010x).%s = %r changed alpha from %d to %d" % (v, n, val, a, got[3]), monitor="hsl-accessors")
            return
        if not _near(got[:3], want[:3], 1.01):
            ctx.violation("hsl-setter/%s/wrong-colour" % n, "Color(rgba=%#010x).%s = %r gives %s, the colour with that %s and the other two components kept is %s" % (v, n, val, got, n, tuple(round(w, 1) for w in want)), monitor="hsl-accessors")
            return


def exhaustive(S, ctx, tier, shard, nshards):
    """finite sub-spaces, each split over the shards"""
    counts = {}
    # keywords in three letter cases, with surrounding/inner blanks
    names = sorted(C.KEYWORDS) + ["transparent"]
    n = 0
    for i, k in enumerate(names):
        if i % nshards != shard:
            continue
        want = chan((C.KEYWORDS[k] << 8) | 0xFF) if k != "transparent" else (0, 0, 0, 0)
        mixed = "".join(ch.upper() if j % 2 else ch for j, ch in enumerate(k))
        for text in (k, k.upper(), k.capitalize(), mixed):
            ctx.begin_case(-4, {"stratum": "keyword", "text": text})
            check_spelling(S, ctx, text, want, "keyword", "keyword/%s" % k)
            ctx.end_case(True)
            n += 1
    counts["keywords x 4 letter cases"] = n
    ctx.begin_case(-4, {"stratum": "keyword", "text": "none"})
    ctx.mon("keyword")
    if S.Color("none").value is not None or S.Color(None).value is not None or S.Color("none").hex is not None:
        ctx.violation("keyword/none", "Color('none') is not the absent paint", monitor="keyword")
    ctx.end_case(True)
    # all #rgb and #rgba
    n3 = n4 = 0
    ctx.begin_case(-4, {"stratum": "hex-short", "text": "#rgb / #rgba"})
    for v in range(shard, 4096, nshards):
        t = "#%03x" % v
        r, g, b = (v >> 8) * 17, (v >> 4 & 15) * 17, (v & 15) * 17
        check_spelling(S, ctx, t if v % 3 else t.upper(), (r, g, b, 255), "hex3", "hex/3-digits")
        n3 += 1
    for v in range(shard, 65536, nshards):
        t = "#%04x" % v
        want = ((v >> 12) * 17, (v >> 8 & 15) * 17, (v >> 4 & 15) * 17, (v & 15) * 17)
        c = check_spelling(S, ctx, t, want, "hex4", "hex/4-digits")
        n4 += 1
    ctx.end_case(True)
    counts["#rgb strings"] = n3
    counts["#rgba strings"] = n4
    # every channel value through every single-component setter on 64 base colours
    ns = 0
    ctx.begin_case(-4, {"stratum": "setter-sweep", "text": "0..255 x 4 setters x 64 bases"})
    import random
    R = random.Random(12345)
    bases = [R.randrange(1 << 32) for _ in range(62)] + [0, 0xFFFFFFFF]
    for bi, base in enumerate(bases):
        if bi % nshards != shard:
            continue
        for n_, shift in (("red", 24), ("green", 16), ("blue", 8), ("alpha", 0)):
            for nv in range(256):
                d = S.Color(rgba=base)
                setattr(d, n_, nv)
                ctx.mon("component-setters")
                ns += 1
                want = (base & ~(255 << shift) & 0xFFFFFFFF) | (nv << shift)
                if d.value != want or getattr(d, n_) != nv:
                    ctx.violation("component-setter/%s" % n_, "Color(rgba=%#010x).%s = %d gives %#010x, expected %#010x" % (base, n_, nv, d.value, want), monitor="component-setters")
                    break
    ctx.end_case(True)
    counts["component setter writes"] = ns
    return counts
