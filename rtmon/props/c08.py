"""C08 - bounding boxes contain the geometry and are tight."""
import math

from ..gen import geometry as GG
from ..gen import transforms as GT
from ..num import m_det, m_mul, m_norm
from ..ref import bboxref as B

ID = "C08"
RULE = (
    "segments (Beziers built with 0, 1 or 2 interior extrema per axis, axis-degenerate, near-linear cubics around the code's "
    "1e-8 threshold at scales 1e-3..1e5, arcs of every class incl. rotations that are multiples of 90 degrees, sweeps from 1e-3 "
    "to 1.9 turns, zero extent, arcs after non-conformal matrices), paths, subpaths, shapes under matrices, nested groups; "
    "transformed and with_stroke in both settings with stroke painted / none / absent and non-scaling stroke. The reported box "
    "must be ordered, contain the exact reference box (stationary points of the reference curve) and touch it on all four sides; "
    "container boxes must be the union of the rendered children's boxes. Non-trivial = the geometry has a curved segment or a transform."
)
BUDGET = {"quick": 40000, "thorough": 1500000}
TIME_CAP = {"quick": 240, "thorough": 1500}
ANCHORS = ["PathSegment.bbox", "Move.bbox", "QuadraticBezier.bbox", "CubicBezier.bbox", "CubicBezier._real_minmax", "Arc.bbox", "Shape.bbox",
           "Subpath.bbox", "Group.union_bbox", "Group.bbox", "GraphicObject.implicit_stroke_width"]
REQUIRED_MONITORS = ["segment-box", "path-box", "shape-box", "shape-box-from-attributes", "stroke-box", "group-box", "subpath-box"]


def strata_minimum(tier):
    f = 1 if tier == "quick" else 20
    d = {"seg/%s" % k: 300 * f for k in ("L", "Q", "C", "A")}
    d.update({"seg/C-extrema": 600 * f, "seg/Q-extrema": 300 * f, "seg/C-near-linear": 600 * f, "seg/A-rot90": 300 * f, "seg/A-mapped": 400 * f,
              "path": 1000 * f, "shape": 1000 * f, "group": 300 * f, "subpath": 200 * f})
    return d


def nontrivial(case):
    return True


def _cubic_with_extrema(R, n):
    """per axis: a cubic coordinate function whose derivative has the chosen interior roots"""
    def axis():
        k = R.choice([0, 1, 2])
        scale = R.choice([1.0, 10.0, 300.0, 10 ** R.uniform(-2, 4.5)])
        p0 = R.choice([0.0, R.uniform(-1, 1) * scale])
        if k == 2:
            r1, r2 = sorted((R.uniform(0.02, 0.98), R.uniform(0.02, 0.98)))
            # derivative proportional to (t - r1)(t - r2)
            A = R.choice([-1, 1]) * R.uniform(0.5, 3) * scale
            # x'(t) = A (t^2 - (r1+r2) t + r1 r2)  ->  integrate and convert to Bernstein control points
            a3, a2, a1 = A / 3.0, -A * (r1 + r2) / 2.0, A * r1 * r2
        elif k == 1:
            r1 = R.uniform(0.02, 0.98)
            r2 = R.choice([-1, 1]) * R.uniform(1.2, 5) + 0.5
            A = R.choice([-1, 1]) * R.uniform(0.5, 3) * scale
            a3, a2, a1 = A / 3.0, -A * (r1 + r2) / 2.0, A * r1 * r2
        else:
            # monotone: derivative of constant sign
            A = R.choice([-1, 1]) * R.uniform(0.5, 3) * scale
            r = R.uniform(-3, -0.2)
            r2 = R.uniform(1.2, 4)
            a3, a2, a1 = A / 3.0, -A * (r + r2) / 2.0, A * r * r2
        # power basis x = p0 + a1 t + a2 t^2 + a3 t^3  ->  Bezier
        b0 = p0
        b1 = p0 + a1 / 3.0
        b2 = p0 + 2 * a1 / 3.0 + a2 / 3.0
        b3 = p0 + a1 + a2 + a3
        return [b0, b1, b2, b3]
    xs, ys = axis(), axis()
    return {"k": "C", "s": [xs[0], ys[0]], "c1": [xs[1], ys[1]], "c2": [xs[2], ys[2]], "e": [xs[3], ys[3]]}


def _near_linear_cubic(R):
    """cubic coefficient of an axis around the 1e-8 threshold used by the code, at various scales"""
    scale = 10 ** R.uniform(-3, 5)
    def axis():
        p0 = R.uniform(-1, 1) * scale
        # quadratic part with an interior extremum, plus a tiny cubic coefficient
        r = R.uniform(0.1, 0.9)
        a2 = R.choice([-1, 1]) * R.uniform(0.3, 2) * scale
        a1 = -2 * a2 * r
        a3 = R.choice([0.0, 1e-9, -1e-9, 3e-9, 9e-9, 1.1e-8, -1.1e-8, 5e-8, 1e-7, 1e-6, -1e-6, 1e-5, 1e-4]) * R.choice([1.0, 1.0, scale])
        return [p0, p0 + a1 / 3.0, p0 + 2 * a1 / 3.0 + a2 / 3.0, p0 + a1 + a2 + a3]
    xs, ys = axis(), axis()
    if R.random() < 0.2:
        ys = [ys[0]] * 4  # axis-degenerate
    return {"k": "C", "s": [xs[0], ys[0]], "c1": [xs[1], ys[1]], "c2": [xs[2], ys[2]], "e": [xs[3], ys[3]]}


def _quad_with_extrema(R):
    scale = R.choice([1.0, 10.0, 300.0, 10 ** R.uniform(-2, 4.5)])
    def axis():
        k = R.choice([0, 1, 1])
        p0 = R.uniform(-1, 1) * scale
        r = R.uniform(0.03, 0.97) if k else R.choice([-1, 1]) * R.uniform(1.1, 4) + 0.5
        a2 = R.choice([-1, 1]) * R.uniform(0.3, 2) * scale
        a1 = -2 * a2 * r
        return [p0, p0 + a1 / 2.0, p0 + a1 + a2]
    xs, ys = axis(), axis()
    if R.random() < 0.15:
        xs = [xs[0]] * 3
    return {"k": "Q", "s": [xs[0], ys[0]], "c": [xs[1], ys[1]], "e": [xs[2], ys[2]]}


PAINT = ["painted", "painted", "none", "absent", "non-scaling"]


def gen_case(R, index, tier):
    k = R.random()
    case = {}
    if k < 0.52:
        w = R.random()
        if w < 0.22:
            case = {"stratum": "seg/C-extrema", "seg": _cubic_with_extrema(R, 0)}
        elif w < 0.32:
            case = {"stratum": "seg/Q-extrema", "seg": _quad_with_extrema(R)}
        elif w < 0.52:
            case = {"stratum": "seg/C-near-linear", "seg": _near_linear_cubic(R)}
        elif w < 0.62:
            case = {"stratum": "seg/A-rot90", "seg": GG.arc(R, "rot-90")}
        elif w < 0.76:
            case = {"stratum": "seg/A-mapped", "seg": GG.arc(R, R.choice(GG.ARC_STRATA)), "matrix": list(GT.affine(R, R.choice(["aniso", "rot-aniso", "aniso-rot", "shear", "general", "general-neg", "reflect"]))[1])}
        else:
            kind = "LQCA"[index % 4]
            spec, st = GG.segment(R, kind)
            case = {"stratum": "seg/%s" % kind, "seg": spec, "segclass": st}
            if R.random() < 0.3:
                case["matrix"] = list(GT.affine(R)[1])
    elif k < 0.72:
        case = {"stratum": "path", "path": GG.path(R, maxseg=4), "paint": R.choice(PAINT), "sw": R.choice([1.0, 0.5, 3.0, R.uniform(0.1, 20)])}
        if R.random() < 0.7:
            case["matrix"] = list(GT.affine(R)[1])
    elif k < 0.77:
        case = {"stratum": "subpath", "path": GG.path(R, nsub=R.randint(2, 3), maxseg=3), "which": R.randint(0, 2), "paint": R.choice(PAINT), "sw": R.uniform(0.1, 10)}
        if R.random() < 0.5:
            case["matrix"] = list(GT.affine(R)[1])
    elif k < 0.93:
        case = {"stratum": "shape", "shape": GG.shape_spec(R), "paint": R.choice(PAINT), "sw": R.choice([1.0, 2.0, R.uniform(0.1, 20)])}
        if R.random() < 0.7:
            case["matrix"] = list(GT.affine(R)[1])
    else:
        def member(depth):
            if depth < 3 and R.random() < 0.35:
                # a group or a use (both are containers of rendered descendants; a use may sit directly in a use)
                return {"group": [member(depth + 1) for _ in range(R.randint(0, 3))], "container": R.choice(["group", "use", "use"])}
            m = list(GT.affine(R)[1]) if R.random() < 0.6 else None
            if R.random() < 0.5:
                return {"shape": GG.shape_spec(R), "matrix": m, "paint": R.choice(PAINT), "sw": R.uniform(0.2, 8)}
            return {"path": GG.path(R, nsub=1, maxseg=3), "matrix": m, "paint": R.choice(PAINT), "sw": R.uniform(0.2, 8)}
        case = {"stratum": "group", "members": [member(0) for _ in range(R.randint(1, 4))], "top": R.choice(["group", "group", "use"])}
    case["transformed"] = R.random() < 0.7
    case["with_stroke"] = R.random() < 0.5
    return case


_SLACK = [0.0]  # how far the stored end points of the arcs of the current case lie off their own parametric form


def _ordered(b):
    return b[0] <= b[2] and b[1] <= b[3]


def judge(ctx, got, ref, what, key, monitor, S_=None):
    """ordered, contains the reference box and touches it on all sides"""
    if got is None or ref is None:
        if got is None and ref is None:
            return True
        ctx.violation("%s/none-mismatch" % key, "%s: bbox %r, reference %r" % (what, got, ref), monitor=monitor)
        return False
    try:
        got = tuple(float(v) for v in got)
    except Exception:
        ctx.violation("%s/not-numeric" % key, "%s: bbox %r" % (what, got), monitor=monitor)
        return False
    if not _ordered(got):
        ctx.violation("%s/unordered" % key, "%s: bbox %r is not ordered" % (what, got), monitor=monitor)
        return False
    size = max(ref[2] - ref[0], ref[3] - ref[1], 1e-300)
    mag = max(abs(v) for v in ref) if S_ is None else S_
    # a (near) half-turn arc with scaled-up radii stores end points that lie up to 1e-8 of its size off the
    # ellipse it stores (square root of cancelling noise in the F.6 solve): exactly that measured amount is granted
    tol = 1e-9 * size + 1e-12 * max(mag, 1e-3) + 2 * _SLACK[0]
    names = ("xmin", "ymin", "xmax", "ymax")
    worst = 0.0
    for i in range(4):
        inside = (ref[i] - got[i]) if i < 2 else (got[i] - ref[i])  # >= 0 when the reference is contained
        r = abs(inside) / tol
        if inside < 0 and r > 1:
            ctx.violation("%s/does-not-contain" % key, "%s: %s=%r but the geometry reaches %r (box %r, reference %r)" % (what, names[i], got[i], ref[i], got, ref), monitor=monitor)
            return False
        if inside > 0 and r > 1:
            ctx.violation("%s/not-tight" % key, "%s: %s=%r but the geometry only reaches %r (slack %.3g, tolerance %.3g; box %r, reference %r)" % (what, names[i], got[i], ref[i], inside, tol, got, ref), monitor=monitor)
            return False
        worst = max(worst, r)
    ctx.see(monitor, worst)
    return True


def _paint(S, obj, paint, sw):
    if paint in ("painted", "non-scaling"):
        obj.stroke = S.Color("blue")
        obj.stroke_width = sw
        if paint == "non-scaling":
            obj.values["vector-effect"] = "non-scaling-stroke"
    elif paint == "none":
        obj.stroke = S.Color("none")
        obj.stroke_width = sw
    else:
        obj.stroke = None
        obj.stroke_width = sw


def _grow(box, paint, sw, m, transformed):
    if box is None or paint in ("none", "absent"):
        return box
    if not transformed or paint == "non-scaling":
        w = sw  # non-scaling: only the viewport transform scales it, there is none here
    else:
        w = sw * math.sqrt(abs(m_det(m))) if m is not None else sw
    d = w / 2.0
    return (box[0] - d, box[1] - d, box[2] + d, box[3] + d)


def _path_ref(S, path, lo, hi, m, transformed):
    """reference box of path segments lo..hi from their stored defining data, mapped by m when transformed"""
    curves = [_curve_of(S, seg) for seg in path._segments[lo:hi + 1]]
    if transformed and m is not None:
        curves = [B.map_curve(c, m) for c in curves]
        _SLACK[0] *= max(1.0, m_norm(m))
    return B.union([B.box(c) for c in curves]), curves


def run_case(S, case, ctx):
    _SLACK[0] = 0.0
    try:
        return _run_case(S, case, ctx)
    finally:
        ctx.maxval("arc_endpoint_inconsistency_over_size", 0.0)


def _run_case(S, case, ctx):
    st = case["stratum"]
    tr, ws = case["transformed"], case["with_stroke"]
    m = tuple(case["matrix"]) if case.get("matrix") else None
    if st.startswith("seg/"):
        seg = GG.build_segment(S, case["seg"])
        cv = B.from_spec(case["seg"])
        if m is not None:
            seg *= S.Matrix(*m)
            cv = B.map_curve(cv, m)
        if isinstance(seg, S.Arc):
            # the box is a statement about the arc as stored (centre, axes, start point, sweep); whether that stored
            # form is the right arc is C05's and C02's subject.  The F.6 solve of a (near) half turn differs from
            # ours by up to 1e-8 of the size, which is fine for C05 and far too coarse for a tightness claim.
            cv = _curve_of(S, seg)
        ctx.mon("segment-box")
        kind = type(seg).__name__
        what = "%r.bbox()" % (seg,)
        try:
            got = seg.bbox()
        except Exception as e:
            ctx.violation("segment/%s/raises-%s" % (kind, type(e).__name__), "%s: %r" % (what, e), monitor="segment-box")
            return
        ref = B.box(cv)
        feature = st.split("/", 1)[1]
        S_ = max([1e-3] + [abs(v) for v in ref])
        judge(ctx, got, ref, what, "segment/%s/%s" % (kind, feature), "segment-box", S_)
        return
    if st in ("path", "subpath"):
        path = GG.build_path(S, case["path"])
        _paint(S, path, case["paint"], case["sw"])
        if m is not None:
            path *= S.Matrix(*m)
        if st == "path":
            ctx.mon("path-box")
            ref, _ = _path_ref(S, path, 0, len(path) - 1, m, tr)
            what = "Path(%s, transform=%s).bbox(transformed=%s)" % (path.d(transformed=False), m, tr)
            try:
                got = path.bbox(transformed=tr)
            except Exception as e:
                ctx.violation("path/raises-%s" % type(e).__name__, "%s: %r" % (what, e), monitor="path-box")
                return
            if not judge(ctx, got, ref, what, "path/%s" % ("transformed" if tr and m else "plain"), "path-box"):
                return
            ctx.mon("stroke-box")
            gots = path.bbox(transformed=tr, with_stroke=True)
            refs = _grow(ref, case["paint"], case["sw"], m, tr)
            judge(ctx, gots, refs, what + " with_stroke [%s, width %r]" % (case["paint"], case["sw"]), "stroke/path/%s%s" % (case["paint"], "/transformed" if tr and m else ""), "stroke-box")
            return
        subs = list(path.as_subpaths())
        if not subs:
            return
        j = case["which"] % len(subs)
        sub = subs[j]
        ctx.mon("subpath-box")
        ref, _ = _path_ref(S, path, sub._start, sub._end, m, tr)
        what = "subpath %d of Path(%s, transform=%s).bbox(transformed=%s, with_stroke=%s)" % (j, path.d(transformed=False), m, tr, ws)
        try:
            got = sub.bbox(transformed=tr, with_stroke=ws)
        except Exception as e:
            ctx.violation("subpath/raises-%s" % type(e).__name__, "%s: %r" % (what, e), monitor="subpath-box")
            return
        if ws:
            ref = _grow(ref, case["paint"], case["sw"], m, tr)
        judge(ctx, got, ref, what, "subpath/%s%s" % ("stroke-%s" % case["paint"] if ws else "geometry", "/transformed" if tr and m else ""), "subpath-box")
        return
    if st == "shape":
        shape = GG.build_shape(S, case["shape"], m)
        _paint(S, shape, case["paint"], case["sw"])
        base = shape.segments(transformed=False)
        ref = None
        if base:
            # the reference decomposition is the library's own untransformed one (its correctness is C06's subject);
            # what is judged here is the box of it, transformed or not
            curves = []
            for seg in base:
                curves.append(_curve_of(S, seg))
            if tr and m is not None:
                curves = [B.map_curve(c, m) for c in curves]
                _SLACK[0] *= max(1.0, m_norm(m))
            ref = B.union([B.box(c) for c in curves])
        ctx.mon("shape-box")
        what = "%r transform=%s .bbox(transformed=%s)" % (case["shape"], m, tr)
        try:
            got = shape.bbox(transformed=tr)
        except Exception as e:
            ctx.violation("shape/%s/raises-%s" % (case["shape"]["kind"], type(e).__name__), "%s: %r" % (what, e), monitor="shape-box")
            return
        if not judge(ctx, got, ref, what, "shape/%s/%s" % (case["shape"]["kind"], "transformed" if tr and m else "plain"), "shape-box"):
            return
        # independent of the library's decomposition: in its own user space a basic shape's box follows from its attributes alone
        # (a rect is [x, x+w] x [y, y+h] whatever its corner radii, SVG 2 10.2)
        sp = case["shape"]
        an = None
        if sp["kind"] == "rect" and sp["width"] > 0 and sp["height"] > 0:
            an = (sp["x"], sp["y"], sp["x"] + sp["width"], sp["y"] + sp["height"])
        elif sp["kind"] == "circle":
            an = (sp["cx"] - sp["r"], sp["cy"] - sp["r"], sp["cx"] + sp["r"], sp["cy"] + sp["r"])
        elif sp["kind"] == "ellipse":
            an = (sp["cx"] - sp["rx"], sp["cy"] - sp["ry"], sp["cx"] + sp["rx"], sp["cy"] + sp["ry"])
        elif sp["kind"] == "line":
            an = (min(sp["x1"], sp["x2"]), min(sp["y1"], sp["y2"]), max(sp["x1"], sp["x2"]), max(sp["y1"], sp["y2"]))
        elif sp.get("points"):
            xs, ys = [q[0] for q in sp["points"]], [q[1] for q in sp["points"]]
            an = (min(xs), min(ys), max(xs), max(ys))
        if an is not None:
            ctx.mon("shape-box-from-attributes")
            try:
                own = shape.bbox(transformed=False)
            except Exception as e:
                ctx.violation("shape-attributes/%s/raises-%s" % (sp["kind"], type(e).__name__), "%r.bbox(transformed=False): %r" % (sp, e), monitor="shape-box-from-attributes")
                return
            if not judge(ctx, own, an, "%r.bbox(transformed=False)" % (sp,), "shape-attributes/%s" % sp["kind"], "shape-box-from-attributes"):
                return
        ctx.mon("stroke-box")
        gots = shape.bbox(transformed=tr, with_stroke=True)
        refs = _grow(ref, case["paint"], case["sw"], m, tr)
        judge(ctx, gots, refs, what + " with_stroke [%s, width %r]" % (case["paint"], case["sw"]), "stroke/shape/%s%s" % (case["paint"], "/transformed" if tr and m else ""), "stroke-box")
        return
    # group
    ctx.mon("group-box")
    boxes = []

    def build(mem):
        if "group" in mem:
            g = S.Use() if mem.get("container") == "use" else S.Group()
            ctx.note("container " + mem.get("container", "group"))
            for c in mem["group"]:
                g.append(build(c))
            return g
        mm = tuple(mem["matrix"]) if mem.get("matrix") else None
        if "shape" in mem:
            o = GG.build_shape(S, mem["shape"], mm)
        else:
            o = GG.build_path(S, mem["path"])
            if mm is not None:
                o *= S.Matrix(*mm)
        _paint(S, o, mem["paint"], mem["sw"])
        # the member's own box is judged by the other strata; here it is the union that is judged
        boxes.append(o.bbox(transformed=tr, with_stroke=ws))
        return o

    g = S.Use() if case.get("top") == "use" else S.Group()
    for mem in case["members"]:
        g.append(build(mem))
    ref = B.union(boxes)
    try:
        got = g.bbox(transformed=tr, with_stroke=ws)
    except Exception as e:
        ctx.violation("group/raises-%s" % type(e).__name__, "Group%r: %r" % (case["members"], e), monitor="group-box")
        return
    if got is None or ref is None:
        if not (got is None and ref is None):
            ctx.violation("group/none-mismatch", "Group.bbox()=%r, union of the members %r" % (got, ref), monitor="group-box")
        return
    if tuple(got) != tuple(ref):
        ctx.violation("group/not-the-union", "Group.bbox(transformed=%s, with_stroke=%s)=%r, union of the members' boxes %r" % (tr, ws, got, ref), monitor="group-box")


def _curve_of(S, seg):
    """reference curve from a library segment's defining data (used for shape decompositions only)"""
    P = lambda p: (p.x, p.y)
    if isinstance(seg, S.Move):
        return ("P", [P(seg.end)])
    if isinstance(seg, (S.Line, S.Close)):
        return ("P", [P(seg.start), P(seg.end)])
    if isinstance(seg, S.QuadraticBezier):
        return ("P", [P(seg.start), P(seg.control), P(seg.end)])
    if isinstance(seg, S.CubicBezier):
        return ("P", [P(seg.start), P(seg.control1), P(seg.control2), P(seg.end)])
    c = P(seg.center)
    u = (seg.prx.x - c[0], seg.prx.y - c[1])
    w = (seg.pry.x - c[0], seg.pry.y - c[1])
    if seg.sweep == 0:
        return ("P", [P(seg.start), P(seg.end)])
    # the library evaluates c + R(angle of u) (|u| cos t, |w| sin t): the second axis is perpendicular to the
    # first by construction, whatever side pry lies on
    nu, nw = math.hypot(*u), math.hypot(*w)
    v = (-u[1] / nu * nw, u[0] / nu * nw)
    dx, dy = seg.start.x - c[0], seg.start.y - c[1]
    ca = (dx * u[0] + dy * u[1]) / (nu * nu)
    sa = (dx * v[0] + dy * v[1]) / (nw * nw)
    th1 = math.atan2(sa, ca)
    cv = ("E", c, u, v, th1, seg.sweep)
    e0, e1 = B.point(cv, 0.0), B.point(cv, 1.0)
    _SLACK[0] = max(_SLACK[0], math.hypot(e0[0] - seg.start.x, e0[1] - seg.start.y), math.hypot(e1[0] - seg.end.x, e1[1] - seg.end.y))
    return cv
