"""C18 - copies and derived objects share no mutable state with their source."""
import math
from copy import copy

from .. import alias
from ..gen import geometry as GG
from ..gen import transforms as GT
from ..gen.numbers import coord

ID = "C18"
RULE = (
    "a value of every kind (Point, Matrix, Color, Length, every segment kind, Path of 1-8 segments, every basic shape, Group with "
    "nested groups, parsed SVG with use, Text, Image stub) x a derivation (copy, x*M with matrix object / identity / string, abs, ~m, "
    "a*b, Path(x), Path(subpath), copy(subpath), subpath*M, Group(x), type(x)(x), x+y, -x) x a history of up to 6 public mutations "
    "applied to either side (transform edits, reify, point / segment field writes, item assignment, append / delete, paint writes "
    "incl. in-place colour setters, values edits, child list edits). Monitors: identity scan of the mutable objects reachable from "
    "both sides right after the derivation; value snapshots of the untouched side around every mutation; operands of the "
    "non-in-place operators unchanged. Non-trivial = the derivation is not the identity on an immutable value."
)
BUDGET = {"quick": 60000, "thorough": 2000000}
TIME_CAP = {"quick": 240, "thorough": 1500}
ANCHORS = ["Length.__copy__", "Point.__copy__", "Matrix.__copy__", "Move.__copy__", "Linear.__copy__", "QuadraticBezier.__copy__", "CubicBezier.__copy__",
           "Arc.__copy__", "Path.__copy__", "Path.__init__", "Shape.property_by_object", "GraphicObject.property_by_object", "Transformable.property_by_object",
           "Rect.__copy__", "Ellipse.__copy__", "Circle.__copy__", "SimpleLine.__copy__", "Polyline.__copy__", "Polygon.__copy__", "Group.__init__",
           "Group.__copy__", "Subpath.__copy__", "Transformable.__mul__", "Transformable.__abs__", "PathSegment.__mul__", "Matrix.__matmul__", "Matrix.__invert__"]
REQUIRED_MONITORS = ["alias-scan", "value-equal", "mutation-isolation", "operands-unchanged"]

KINDS = ["point", "matrix", "color", "length", "segment", "path", "shape", "group", "svg", "text", "image", "subpath"]


def strata_minimum(tier):
    f = 1 if tier == "quick" else 20
    return {k: (400 if k in ("path", "shape", "segment", "group") else 150) * f for k in KINDS}


def nontrivial(case):
    return True


def gen_case(R, index, tier):
    kind = KINDS[index % len(KINDS)]
    case = {"stratum": kind, "seed": R.randrange(1 << 30)}
    if kind == "point":
        case["v"] = [coord(R), coord(R)]
    elif kind == "matrix":
        case["v"] = list(GT.affine(R)[1])
        case["w"] = list(GT.affine(R)[1])
    elif kind == "color":
        case["v"] = R.choice(["red", "#12345678", "rgba(10,20,30,0.5)", "hsl(120,50%,40%)", "none", "transparent", R.randrange(1 << 32)])
    elif kind == "length":
        case["v"] = "%r%s" % (round(R.uniform(-50, 50), 3), R.choice(["", "px", "pt", "in", "cm", "%", "em"]))
        case["w"] = "%r%s" % (round(R.uniform(-50, 50), 3), R.choice(["", "px", "pt"]))
    elif kind == "segment":
        case["seg"], _ = GG.segment(R)
        if R.random() < 0.15:
            case["seg"] = R.choice([{"k": "M", "p": GG.pt(R)}, {"k": "Z", "s": GG.pt(R), "e": GG.pt(R)}])
    elif kind in ("path", "subpath"):
        case["path"] = GG.path(R, nsub=R.randint(1, 3) if kind == "path" else R.randint(2, 3), maxseg=3)
        case["other"] = GG.path(R, nsub=1, maxseg=2)
        case["which"] = R.randint(0, 2)
    elif kind == "shape":
        case["shape"] = GG.shape_spec(R)
    elif kind == "group":
        def member(d):
            if d < 2 and R.random() < 0.35:
                return {"group": [member(d + 1) for _ in range(R.randint(1, 3))]}
            return {"shape": GG.shape_spec(R)} if R.random() < 0.6 else {"path": GG.path(R, nsub=1, maxseg=2)}
        case["members"] = [member(0) for _ in range(R.randint(1, 4))]
    if kind in ("path", "shape", "group", "subpath", "segment"):
        case["pre"] = list(GT.affine(R)[1]) if R.random() < 0.5 else None
        case["paint"] = R.random() < 0.7
    case["M"] = list(GT.affine(R, R.choice(["identity", "translate", "rotate", "aniso", "general", "general-neg", "uniform"]))[1])
    case["derive"] = R.randrange(64)
    case["muts"] = [[R.choice(["result", "source"]), R.randrange(64), round(R.uniform(1, 9), 2)] for _ in range(R.randint(1, 6))]
    return case


def shrink_candidates(case):
    m = case["muts"]
    for i in range(len(m)):
        c = dict(case)
        c["muts"] = m[:i] + m[i + 1:]
        yield c


# ---- construction ---------------------------------------------------------------------------------------------

SVG_DOC = """<svg xmlns="http://www.w3.org/2000/svg" xmlns:xlink="http://www.w3.org/1999/xlink" width="200" height="100" viewBox="0 0 100 50">
<defs><g id="d"><rect x="1" y="2" width="30" height="4" fill="red"/><circle cx="5" cy="5" r="3" stroke="blue" stroke-width="2"/></g></defs>
<g transform="rotate(10)" fill="green"><path d="M0,0 L10,10 Q 20,0 30,10 Z" stroke="#123"/><use xlink:href="#d" x="7" y="9"/></g>
<ellipse cx="50" cy="25" rx="20" ry="10" transform="skewX(20)"/><polyline points="0,0 5,5 10,0"/><text x="3" y="4">hi</text></svg>"""


def _paint(S, o):
    o.stroke = S.Color("blue")
    o.fill = S.Color("#80ff0040")
    o.stroke_width = 2.5
    o.values["data-note"] = "n"


def make(S, case):
    k = case["stratum"]
    if k == "point":
        return S.Point(case["v"][0], case["v"][1])
    if k == "matrix":
        return S.Matrix(*case["v"])
    if k == "color":
        return S.Color(case["v"])
    if k == "length":
        return S.Length(case["v"])
    if k == "segment":
        return GG.build_segment(S, case["seg"])
    if k in ("path", "subpath"):
        p = GG.build_path(S, case["path"])
        if case.get("paint"):
            _paint(S, p)
        if case.get("pre"):
            p *= S.Matrix(*case["pre"])
        if k == "subpath":
            subs = list(p.as_subpaths())
            return subs[case["which"] % len(subs)]
        return p
    if k == "shape":
        sh = GG.build_shape(S, case["shape"], tuple(case["pre"]) if case.get("pre") else None)
        if case.get("paint"):
            _paint(S, sh)
        return sh
    if k == "group":
        def build(mem):
            if "group" in mem:
                g = S.Group()
                g.values["id"] = "g"
                for c in mem["group"]:
                    g.append(build(c))
                return g
            o = GG.build_shape(S, mem["shape"]) if "shape" in mem else GG.build_path(S, mem["path"])
            _paint(S, o)
            return o
        g = S.Group()
        for mem in case["members"]:
            g.append(build(mem))
        if case.get("pre"):
            g *= S.Matrix(*case["pre"])
        return g
    if k == "svg":
        import io
        return S.SVG.parse(io.StringIO(SVG_DOC), reify=False)
    if k == "text":
        t = S.Text("hello", x=3, y=4, font_size=12, transform="rotate(5)")
        t.fill = S.Color("red")
        return t
    im = S.Image(href="none.png", x=1, y=2, width=30, height=20, transform="scale(2)")
    return im


# ---- value snapshots ---------------------------------------------------------------------------------------------

def _xy(p):
    return None if p is None else (p.x, p.y)


def snap(S, x, depth=0):
    if x is None or isinstance(x, (int, float, str, bool)):
        return x
    if isinstance(x, S.Point):
        return ("Point", x.x, x.y)
    if isinstance(x, S.Matrix):
        return ("Matrix", repr(x.a), repr(x.b), repr(x.c), repr(x.d), repr(x.e), repr(x.f))
    if isinstance(x, S.Color):
        return ("Color", x.value)
    if isinstance(x, S.Length):
        return ("Length", x.amount, x.units)
    if isinstance(x, S.PathSegment):
        rec = [type(x).__name__, _xy(x.start), _xy(x.end), bool(x.relative)]
        for n in ("control", "control1", "control2", "center", "prx", "pry"):
            if hasattr(x, n):
                rec.append(_xy(getattr(x, n)))
        if hasattr(x, "sweep"):
            rec.append(x.sweep)
        return tuple(rec)
    if isinstance(x, S.Subpath):
        return ("Subpath", x._start, x._end, tuple(snap(S, s) for s in x))
    rec = [type(x).__name__]
    if hasattr(x, "transform"):
        rec.append(snap(S, x.transform))
    for n in ("stroke", "fill", "stroke_width", "id", "x", "y", "width", "height", "rx", "ry", "cx", "cy", "x1", "y1", "x2", "y2", "text", "font_size", "url", "viewbox"):
        if hasattr(x, n):
            v = getattr(x, n)
            rec.append((n, snap(S, v) if not isinstance(v, (S.Viewbox,)) else repr(v)))
    if isinstance(x, S.Path):
        rec.append(tuple(snap(S, s) for s in x._segments))
    if hasattr(x, "points") and isinstance(getattr(x, "points"), list):
        rec.append(tuple(snap(S, p) for p in x.points))
    if hasattr(x, "values") and isinstance(x.values, dict):
        rec.append(tuple(sorted((str(k), repr(v)[:80]) for k, v in x.values.items() if k not in ("attributes",) and not isinstance(v, dict))))
    if isinstance(x, list) and depth < 6:
        rec.append(tuple(snap(S, c, depth + 1) for c in x))
    return tuple(rec)


# ---- derivations ---------------------------------------------------------------------------------------------

def derivations(S, x, case):
    """[(name, thunk)] ; a thunk returns (result, [operands that must stay unchanged])"""
    M = S.Matrix(*case["M"])
    Mtxt = "matrix(%r,%r,%r,%r,%r,%r)" % tuple(case["M"])
    out = [("copy", lambda: (copy(x), [x]))]
    if isinstance(x, S.Point):
        out += [("point*matrix", lambda: (x * M, [x, M])), ("point*identity", lambda: (x * S.Matrix(), [x])), ("Point(point)", lambda: (S.Point(x), [x])),
                ("point+point", lambda: (x + S.Point(1, 2), [x])), ("point*string", lambda: (x * Mtxt, [x]))]
    elif isinstance(x, S.Matrix):
        W = S.Matrix(*case["w"])
        out += [("~matrix", lambda: (~x, [x])), ("matrix*matrix", lambda: (x * W, [x, W])), ("matrix@matrix", lambda: (x @ W, [x, W])), ("Matrix(matrix)", lambda: (S.Matrix(x), [x])),
                ("matrix.vector()", lambda: (x.vector(), [x]))]
    elif isinstance(x, S.Color):
        out += [("Color(color)", lambda: (S.Color(x), [x]))]
    elif isinstance(x, S.Length):
        W = S.Length(case["w"])
        out += [("-length", lambda: (-x, [x])), ("length*number", lambda: (x * 2.5, [x])), ("abs(length)", lambda: (abs(x), [x])), ("length/number", lambda: (x / 2.0, [x]))]
        if x.units == W.units or (x.units in ("", "px", "pt") and W.units in ("", "px", "pt")):
            out += [("length+length", lambda: (x + W, [x, W])), ("length-length", lambda: (x - W, [x, W]))]
    elif isinstance(x, S.PathSegment):
        out += [("segment*matrix", lambda: (x * M, [x, M])), ("segment*string", lambda: (x * Mtxt, [x]))]
        if x.start is not None and not isinstance(x, S.Move):
            # (Path(seg1, seg2, ...) is the container constructor: it is made *of* the given segments by definition)
            out += [("segment+string", lambda: (x + "L 1,2", [x])), ("segment+segment", lambda: (x + S.Line(x.end, (1, 2)), [x]))]
    elif isinstance(x, S.Subpath):
        out = [("copy(subpath)", lambda: (copy(x), [x])), ("Path(subpath)", lambda: (S.Path(x), [x])), ("subpath*matrix", lambda: (x * M, [x, M])), ("subpath*string", lambda: (x * Mtxt, [x]))]
    elif isinstance(x, S.Path):
        other = GG.build_path(S, case["other"])
        seg = S.Line(S.Point(3, 4), S.Point(5, 6))
        out += [("path*matrix", lambda: (x * M, [x, M])), ("path*identity", lambda: (x * S.Matrix(), [x])), ("path*string", lambda: (x * Mtxt, [x])), ("abs(path)", lambda: (abs(x), [x])),
                ("Path(path)", lambda: (S.Path(x), [x])), ("path+path", lambda: (x + other, [x, other])), ("path+string", lambda: (x + "L 7,8 z", [x])),
                ("path+segment", lambda: (x + seg, [x, seg])), ("string+path", lambda: ("M -1,-1 L 0,0" + x, [x])), ("Path(list of its segments)", lambda: (S.Path(*[copy(s) for s in x]), [x]))]
    elif isinstance(x, S.Shape):
        out += [("shape*matrix", lambda: (x * M, [x, M])), ("shape*identity", lambda: (x * S.Matrix(), [x])), ("shape*string", lambda: (x * Mtxt, [x])), ("abs(shape)", lambda: (abs(x), [x])),
                ("Path(shape)", lambda: (S.Path(x), [x])), ("type(shape)(shape)", lambda: (type(x)(x), [x])), ("path+shape", lambda: (S.Path("M0,0 L1,1") + x, [x]))]
    elif isinstance(x, S.SVG):
        out = [("copy(svg)", lambda: (copy(x), [x])), ("Group(svg)", lambda: (S.Group(x), [x])), ("svg*matrix", lambda: (x * M, [x, M]))]
    elif isinstance(x, S.Group):
        out += [("Group(group)", lambda: (S.Group(x), [x])), ("group*matrix", lambda: (x * M, [x, M])), ("group*string", lambda: (x * Mtxt, [x])), ("abs(group)", lambda: (abs(x), [x]))]
    elif isinstance(x, (S.Text, S.Image)):
        out += [("element*matrix", lambda: (x * M, [x, M])), ("abs(element)", lambda: (abs(x), [x])), ("type(element)(element)", lambda: (type(x)(x), [x]))]
    return out


# ---- mutations ---------------------------------------------------------------------------------------------

def mutations(S, o, amount):
    """[(name, thunk)] public in-place mutations available on o"""
    m = []
    T = S.Matrix.translate(amount, -amount) * S.Matrix.scale(1 + amount / 10.0)
    if isinstance(o, S.Point):
        m += [("point.x=", lambda: setattr(o, "x", o.x + amount)), ("point*=matrix", lambda: o.__imul__(T)), ("point+=", lambda: o.__iadd__(S.Point(amount, 1)))]
    elif isinstance(o, S.Matrix):
        m += [("matrix.post_translate", lambda: o.post_translate(amount, 2)), ("matrix*=", lambda: o.__imul__(T)), ("matrix.reset", lambda: o.reset()), ("matrix.a=", lambda: setattr(o, "a", o.a + amount)),
              ("matrix.inverse", lambda: o.inverse() if abs(o.determinant) > 1e-6 else None)]
    elif isinstance(o, S.Color):
        m += [("color.red=", lambda: setattr(o, "red", (o.red or 0) ^ 0x55)), ("color.opacity=", lambda: setattr(o, "opacity", 0.25)), ("color.value=", lambda: setattr(o, "value", 0x01020304))]
    elif isinstance(o, S.Length):
        m += [("length.amount=", lambda: setattr(o, "amount", (o.amount or 0) + amount)), ("length*=", lambda: o.__imul__(2.0)), ("length.units=", lambda: setattr(o, "units", "mm"))]
    elif isinstance(o, S.PathSegment):
        m += [("segment*=matrix", lambda: o.__imul__(T)), ("segment.end.x=", lambda: setattr(o.end, "x", o.end.x + amount) if o.end is not None else None),
              ("segment.end=", lambda: setattr(o, "end", S.Point(amount, amount))), ("segment.reverse", lambda: o.reverse() if o.start is not None else None)]
        if hasattr(o, "control1"):
            m.append(("segment.control1*=", lambda: o.control1.__imul__(T)))
        if hasattr(o, "center") and o.center is not None:
            m.append(("arc.center.y=", lambda: setattr(o.center, "y", o.center.y + amount)))
    elif isinstance(o, S.Subpath):
        m += [("subpath*=matrix", lambda: o.__imul__(T)), ("subpath.reverse", lambda: o.reverse()), ("subpath[0].end.x=", lambda: setattr(o[0].end, "x", o[0].end.x + amount))]
    else:
        if hasattr(o, "transform") and o.transform is not None:
            m += [("*=matrix", lambda: o.__imul__(T)), ("transform.post_rotate", lambda: o.transform.post_rotate(amount / 10.0)), ("reify", lambda: o.reify())]
        if isinstance(o, S.Path) and len(o) > 0:
            i = int(amount) % len(o)
            m += [("path[i].end.x=", lambda: setattr(o[i].end, "x", o[i].end.x + amount)), ("path[i]*=matrix", lambda: o[i].__imul__(T)),
                  ("path.append", lambda: o.append(S.Line(S.Point(0, 0), S.Point(amount, amount)))), ("del path[-1]", lambda: o.__delitem__(len(o) - 1) if len(o) > 1 else None),
                  ("path[i]=", lambda: o.__setitem__(i, S.Line(S.Point(amount, 0), S.Point(0, amount)))), ("path.reverse", lambda: o.reverse())]
        if hasattr(o, "points") and isinstance(getattr(o, "points", None), list) and o.points:
            m += [("points[0].x=", lambda: setattr(o.points[0], "x", o.points[0].x + amount)), ("points.append", lambda: o.points.append(S.Point(amount, amount)))]
        for n in ("x", "cx", "x1", "width", "rx"):
            if hasattr(o, n) and isinstance(getattr(o, n), (int, float)):
                m.append(("%s=" % n, (lambda nn: (lambda: setattr(o, nn, getattr(o, nn) + amount)))(n)))
                break
        if hasattr(o, "fill"):
            m += [("fill=", lambda: setattr(o, "fill", S.Color("#010203"))), ("stroke_width=", lambda: setattr(o, "stroke_width", amount))]
            if isinstance(getattr(o, "fill", None), S.Color) and o.fill.value is not None:
                m.append(("fill.green=", lambda: setattr(o.fill, "green", o.fill.green ^ 0x33)))
            if isinstance(getattr(o, "stroke", None), S.Color) and o.stroke.value is not None:
                m.append(("stroke.opacity=", lambda: setattr(o.stroke, "opacity", 0.5)))
        if hasattr(o, "values") and isinstance(o.values, dict):
            m.append(("values[]=", lambda: o.values.__setitem__("data-x", str(amount))))
        if isinstance(o, list) and not isinstance(o, S.Path):
            m.append(("children.append", lambda: o.append(S.Rect(0, 0, amount, amount))))
            if len(o) > 0:
                m.append(("del children[0]", lambda: o.__delitem__(0)))
                first = o[0]
                if hasattr(first, "transform"):
                    m.append(("child*=matrix", lambda: first.__imul__(T)))
                if hasattr(first, "fill") and isinstance(first.fill, S.Color) and first.fill.value is not None:
                    m.append(("child.fill.blue=", lambda: setattr(first.fill, "blue", first.fill.blue ^ 0x77)))
                if isinstance(first, S.Path) and len(first) > 0:
                    m.append(("child[0].end.y=", lambda: setattr(first[0].end, "y", first[0].end.y + amount)))
                if isinstance(first, list) and not isinstance(first, S.Path) and len(first) > 0 and hasattr(first[0], "transform"):
                    m.append(("grandchild*=matrix", lambda: first[0].__imul__(T)))
    return m


def run_case(S, case, ctx):
    kind = case["stratum"]
    try:
        x = make(S, case)
    except Exception as e:
        ctx.undecided("building the source raised %s" % type(e).__name__)
        return
    ders = derivations(S, x, case)
    name, thunk = ders[case["derive"] % len(ders)]
    ops_before = None
    ctx.mon("operands-unchanged")
    before = snap(S, x)
    try:
        y, operands = thunk()
    except Exception as e:
        ctx.note("derivation-raises/%s/%s" % (name, type(e).__name__))
        return
    if y is None:
        return
    if snap(S, x) != before:
        ctx.violation("operand-modified/%s" % name, "%s changed its source: %r -> %r" % (name, before, snap(S, x)), monitor="operands-unchanged")
        return
    for op in operands:
        pass
    # (1) identity scan
    ctx.mon("alias-scan")
    if isinstance(x, S.Subpath):
        sh = alias.shared(S, [s for s in x], y._path if isinstance(y, S.Subpath) else y)
    elif isinstance(y, S.Subpath):
        sh = alias.shared(S, x, y._path)
    else:
        sh = alias.shared(S, x, y)
    for op in operands:
        if op is not x and not isinstance(op, (str, int, float)):
            sh += alias.shared(S, op, y if not isinstance(y, S.Subpath) else y._path)
    if y is x and not isinstance(x, (int, float, str)):
        sh = [(type(x).__name__, "x", "the result IS the source object")]
    if sh:
        t, pa, pb = sh[0]
        ctx.violation("shared-mutable-state/%s" % name, "%s of %s: the result and an operand both reach the same %s object (%s / %s); %d shared objects" % (name, _short(before), t, pa, pb, len(sh)), monitor="alias-scan")
        return
    # (2) value equality where the derivation denotes the same value
    ctx.mon("value-equal")
    if name in ("copy", "Point(point)", "Matrix(matrix)", "Color(color)", "type(shape)(shape)", "Group(group)", "type(element)(element)", "copy(subpath)"):
        sy = snap(S, y)
        if sy != before and not (isinstance(x, S.Subpath)):
            ctx.violation("copy-differs-in-value/%s/%s" % (name, kind), "%s: source %s, result %s" % (name, _short(before), _short(sy)), monitor="value-equal")
            return
    # (3) mutation histories
    ctx.mon("mutation-isolation")
    for side, mi, amount in case["muts"]:
        tgt, oth = (y, x) if side == "result" else (x, y)
        ms = mutations(S, tgt, amount)
        if not ms:
            continue
        mname, mt = ms[mi % len(ms)]
        s_other = snap(S, oth)
        s_ops = [snap(S, op) for op in operands if op is not x]
        try:
            mt()
        except Exception as e:
            ctx.note("mutation-raises/%s/%s" % (mname, type(e).__name__))
            continue
        ctx.mon("mutation-isolation")
        if snap(S, oth) != s_other:
            ctx.violation("mutation-leaks/%s/%s-of-%s" % (name, mname, side), "after %s, %s on the %s changed the %s: %s -> %s" % (name, mname, side, "source" if side == "result" else "result", _short(s_other), _short(snap(S, oth))), monitor="mutation-isolation")
            return
        if side == "result":
            for op, s0 in zip([op for op in operands if op is not x], s_ops):
                if snap(S, op) != s0:
                    ctx.violation("mutation-leaks-into-operand/%s/%s" % (name, mname), "after %s, %s on the result changed the operand %s -> %s" % (name, mname, _short(s0), _short(snap(S, op))), monitor="mutation-isolation")
                    return


def _short(s):
    t = repr(s)
    return t if len(t) < 300 else t[:300] + "..."
