"""sys.monitoring based observers (CPython 3.12+).

* AnchorCoverage: which statement lines of the anchored functions a workload really
  executed (LINE events, DISABLE after the first hit - cheap).
* StepCounter: a load-independent notion of "how long did this take": number of LINE
  events between start() and stop(), with an optional ceiling that aborts the
  operation by raising StepLimit from the callback.
"""
import sys
import types

mon = getattr(sys, "monitoring", None)

TOOL_COV = 3
TOOL_STEP = 4


class StepLimit(BaseException):
    """raised inside the monitored code when the step ceiling is exceeded"""


def _resolve(S, qualname):
    obj = S
    for part in qualname.split("."):
        obj = obj.__dict__[part] if isinstance(obj, type) and part in obj.__dict__ else getattr(obj, part)
    if isinstance(obj, (staticmethod, classmethod)):
        obj = obj.__func__
    if isinstance(obj, property):
        obj = obj.fget
    obj = getattr(obj, "__wrapped_original__", obj)
    return obj


def _codes(code):
    yield code
    for c in code.co_consts:
        if isinstance(c, types.CodeType):
            yield from _codes(c)


class AnchorCoverage:
    def __init__(self, S, qualnames):
        self.enabled = mon is not None
        self.funcs = {}  # qualname -> [code,...]
        self.total = {}
        self.hit = {}
        self.missing = []
        self._by_code = {}
        for q in qualnames:
            try:
                f = _resolve(S, q)
                code = f.__code__
            except Exception:
                self.missing.append(q)
                continue
            codes = list(_codes(code))
            self.funcs[q] = codes
            lines = set()
            for c in codes:
                for _, _, ln in c.co_lines():
                    if ln is not None and ln != c.co_firstlineno:
                        lines.add(ln)
                self._by_code[c] = q
            self.total[q] = lines
            self.hit[q] = set()

    def start(self):
        if not self.enabled:
            return
        try:
            mon.use_tool_id(TOOL_COV, "rtmon-cov")
        except ValueError:
            pass
        mon.register_callback(TOOL_COV, mon.events.LINE, self._line)
        for q, codes in self.funcs.items():
            for c in codes:
                mon.set_local_events(TOOL_COV, c, mon.events.LINE)

    def _line(self, code, line):
        q = self._by_code.get(code)
        if q is not None:
            self.hit[q].add(line)
        return mon.DISABLE

    def stop(self):
        if not self.enabled:
            return
        for q, codes in self.funcs.items():
            for c in codes:
                mon.set_local_events(TOOL_COV, c, 0)
        mon.register_callback(TOOL_COV, mon.events.LINE, None)
        try:
            mon.free_tool_id(TOOL_COV)
        except Exception:
            pass

    def dump(self):
        return {
            q: {"hit": sorted(self.hit[q] & self.total[q]), "total": sorted(self.total[q])}
            for q in self.funcs
        } | {q: {"hit": [], "total": [], "unresolved": True} for q in self.missing}


class StepCounter:
    def __init__(self):
        self.enabled = mon is not None
        self.steps = 0
        self.limit = None
        self._on = False
        if self.enabled:
            try:
                mon.use_tool_id(TOOL_STEP, "rtmon-step")
            except ValueError:
                pass
            mon.register_callback(TOOL_STEP, mon.events.LINE, self._line)

    def _line(self, code, line):
        self.steps += 1
        if self.limit is not None and self.steps > self.limit:
            self.limit = None
            raise StepLimit()

    def start(self, limit=None):
        self.steps = 0
        self.limit = limit
        if self.enabled:
            mon.set_events(TOOL_STEP, mon.events.LINE)
            self._on = True

    def stop(self):
        if self.enabled and self._on:
            mon.set_events(TOOL_STEP, 0)
            self._on = False
        self.limit = None
        return self.steps
