"""Reachable-mutable-object scanner (identity sets) - finds shared state without needing
the right mutation to expose it.

reachable(S, x) walks exactly the attributes that carry geometry, transform, paint,
children and equality: segments, points, matrices, colours, lengths, point lists,
children and the `values` dictionary *itself* (not its content: parsed elements keep
a nested `attributes` dict there that a shallow dict(values) copy shares by design;
it feeds neither geometry nor paint nor ==).
"""


def _mutable_types(S):
    return (S.Point, S.Matrix, S.Color, S.Length, S.PathSegment, S.SVGElement, S.Viewbox, list, dict)


def reachable(S, x, _seen=None, _depth=0):
    """{id: (type name, path)} of mutable library objects reachable from x"""
    seen = {} if _seen is None else _seen
    _walk(S, x, "x", seen, 0, _mutable_types(S))
    return seen


def _walk(S, x, path, seen, depth, MT):
    if x is None or isinstance(x, (int, float, str, bool, bytes, complex, S.Angle)):
        return
    if depth > 12:
        return
    if isinstance(x, MT):
        if id(x) in seen:
            return
        seen[id(x)] = (type(x).__name__, path)
    elif isinstance(x, tuple):
        pass
    else:
        # unknown object (Subpath, Text, Image, ...): walk its attributes but it is not itself counted
        if id(x) in seen:
            return
        seen[id(x)] = ("~" + type(x).__name__, path)
    if isinstance(x, dict):
        return  # the values dictionary itself counts; do not descend
    if isinstance(x, (list, tuple)):
        for i, v in enumerate(x):
            _walk(S, v, "%s[%d]" % (path, i), seen, depth + 1, MT)
        if not hasattr(x, "__dict__"):
            return
    d = getattr(x, "__dict__", None)
    if d is None:
        return
    for k, v in d.items():
        if k in ("n",):  # iteration cursor of PathSegment.__iter__
            continue
        _walk(S, v, "%s.%s" % (path, k), seen, depth + 1, MT)


def shared(S, a, b):
    """mutable objects reachable from both a and b: [(type, path in a, path in b)]"""
    ra = reachable(S, a)
    rb = reachable(S, b)
    out = []
    for i in ra.keys() & rb.keys():
        if ra[i][0].startswith("~") and rb[i][0].startswith("~"):
            continue
        out.append((ra[i][0].lstrip("~"), ra[i][1], rb[i][1]))
    return sorted(out)
