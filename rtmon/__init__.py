"""rtmon - runtime monitors for the svgelements properties (see /verif/DESIGN.md)."""
