"""One shard of one check.  Started by rtmon.core with subprocess.run(timeout=...).

usage: python -m rtmon.worker ID TIER SEED SHARD NSHARDS OUTFILE
"""
import array
import importlib
import json
import os
import random
import sys
import time


def load_prop(prop_id):
    return importlib.import_module("rtmon.props.%s" % prop_id.lower())


def case_rng(prop_id, seed, index):
    return random.Random("%s:%s:%s" % (prop_id, seed, index))


def run_one(mod, S, ctx, index, case):
    ctx.begin_case(index, case)
    try:
        mod.run_case(S, case, ctx)
    except RecursionError as e:
        ctx.exception(e, "run_case")
    except Exception as e:  # not anticipated by the property module
        ctx.exception(e, "run_case")
    nontrivial = True
    if hasattr(mod, "nontrivial"):
        try:
            nontrivial = bool(mod.nontrivial(case))
        except Exception:
            nontrivial = True
    keys = list(ctx.case_violations)
    ctx.end_case(nontrivial)
    return keys


def shrink(mod, S, ctx_cls, prop_id, tier, seed, case, key, budget_s=8.0):
    """greedy: accept a simpler case while the same classifier key still fires"""
    if not hasattr(mod, "shrink_candidates"):
        return case
    t0 = time.time()
    cur = case
    improved = True
    rounds = 0
    while improved and time.time() - t0 < budget_s and rounds < 200:
        improved = False
        rounds += 1
        try:
            cands = list(mod.shrink_candidates(cur))
        except Exception:
            break
        for cand in cands:
            if time.time() - t0 > budget_s:
                break
            c2 = ctx_cls(prop_id, tier, seed)
            try:
                keys = run_one(mod, S, c2, -1, cand)
            except BaseException:
                continue
            if key in keys:
                cur = cand
                improved = True
                break
    return cur


def main(argv):
    prop_id, tier, seed, shard, nshards, outfile = argv[:6]
    seed = int(seed)
    shard = int(shard)
    nshards = int(nshards)
    sys.setrecursionlimit(int(os.environ.get("RTMON_RECURSION", "3000")))
    t0 = time.time()

    from rtmon import target, trace
    from rtmon.ctx import Ctx

    S = target.load()
    mod = load_prop(prop_id)
    ctx = Ctx(prop_id, tier, seed)
    cov = trace.AnchorCoverage(S, getattr(mod, "ANCHORS", []))
    if hasattr(mod, "setup"):
        mod.setup(S, ctx, tier)
    cov.start()

    budget = mod.BUDGET[tier]
    cap = float(os.environ.get("RTMON_SHARD_SECONDS", mod.TIME_CAP[tier] if hasattr(mod, "TIME_CAP") else (90 if tier == "quick" else 1500)))
    truncated_at = None
    # enumerated sub-spaces first (sharded by the module itself)
    exhaustive = {}
    if hasattr(mod, "exhaustive"):
        try:
            exhaustive = mod.exhaustive(S, ctx, tier, shard, nshards) or {}
        except Exception as e:
            ctx.begin_case(-2, {"stratum": "exhaustive"})
            ctx.exception(e, "exhaustive")
            ctx.case = None
    for index in range(shard, budget, nshards):
        if time.time() - t0 > cap:
            truncated_at = index
            break
        rng = case_rng(prop_id, seed, index)
        try:
            case = mod.gen_case(rng, index, tier)
        except Exception as e:  # a generator bug: never a verdict on the library
            ctx.undecided("generator-error/%s: %s" % (type(e).__name__, str(e)[:120]))
            continue
        if case is None:
            continue
        run_one(mod, S, ctx, index, case)
    cov.stop()
    if hasattr(mod, "teardown"):
        mod.teardown(S, ctx)

    # shrink the first witness of every key (cheap, bounded)
    if os.environ.get("RTMON_NO_SHRINK") != "1":
        for key, rec in ctx.violations.items():
            if rec["witnesses"] and rec["witnesses"][0]["index"] is not None and rec["witnesses"][0]["index"] >= 0:
                w = rec["witnesses"][0]
                try:
                    small = shrink(mod, S, Ctx, prop_id, tier, seed, w["case"], key)
                    if small is not w["case"]:
                        w["shrunk_case"] = small
                except Exception:
                    pass

    out = ctx.dump()
    out["anchor_coverage"] = cov.dump()
    out["truncated_at"] = truncated_at
    out["exhaustive"] = exhaustive
    out["wall_s"] = time.time() - t0
    out["shard"] = shard
    with open(outfile + ".digests", "wb") as f:
        array.array("Q", sorted(ctx.digests)).tofile(f)
    with open(outfile, "w") as f:
        json.dump(out, f)
    return 0


if __name__ == "__main__":
    sys.exit(main(sys.argv[1:]))
