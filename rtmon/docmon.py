"""Observation side of the document properties (C03, C10, C14, C20): parse a document with the library, list the
rendered shapes, sample their absolute geometry, and compare one rendered shape with one instance of the reference
evaluation (ref/docref.py)."""
import io
import math

from .gen import transforms as GT
from .num import m_apply, m_cond
from .ref import bboxref, docref

T5 = [0.0, 0.25, 0.5, 0.75, 1.0]
LETTER = {"Move": "M", "Line": "L", "Close": "Z", "Arc": "A", "QuadraticBezier": "Q", "CubicBezier": "C"}
TAG = {"Rect": "rect", "Circle": "circle", "Ellipse": "ellipse", "SimpleLine": "line", "Polyline": "polyline", "Polygon": "polygon", "Path": "path"}
SHAPE_TAGS = set(TAG.values())


def cfg_of(c):
    """docref.Config of a case's configuration dict {"ppi", "width": [v, unit]|None, "height", "transform": fns|None}"""
    ppi = c.get("ppi", 96.0)

    def size(l):
        if l is None:
            return None
        return docref.resolve(l, "x", (0.0, 0.0), ppi)
    return docref.Config(ppi=ppi, width=size(c.get("width")), height=size(c.get("height")), transform=c.get("transform"))


def parse_kwargs(c, reify):
    kw = {"reify": reify, "ppi": c.get("ppi", 96.0)}
    for k in ("width", "height"):
        l = c.get(k)
        if l is not None:
            kw[k] = l[0] if (l[1] == "" and not c.get("size_as_text")) else "%r%s" % (l[0], l[1])
    if c.get("transform"):
        kw["transform"] = c.get("tftext") or GT.spell_list(None, c["transform"])
    return kw


def parse(S, xml, kw):
    return S.SVG.parse(io.StringIO(xml), **kw)


def shapes(S, svg):
    return [e for e in svg.elements() if isinstance(e, S.Shape) and not isinstance(e, S.Image if hasattr(S, "Image") and isinstance(S.Image, type) and issubclass(S.Image, S.Shape) else ())]


def tag_of(shape):
    return TAG.get(type(shape).__name__, type(shape).__name__)


def lib_geometry(S, shape):
    """[(letter, [points])] of abs(Path(shape))"""
    p = abs(S.Path(shape))
    out = []
    for seg in p:
        k = LETTER[type(seg).__name__]
        if k == "M":
            out.append((k, [(seg.end.x, seg.end.y)]))
        else:
            out.append((k, [(q.x, q.y) for q in (seg.point(t) for t in T5)]))
    return out


def ref_geometry(inst):
    out = []
    for k, cv in inst["curves"]:
        pts = [bboxref.point(cv, 0.0)] if k == "M" else [bboxref.point(cv, t) for t in T5]
        out.append((k, pts, [m_apply(inst["ctm"], p) for p in pts], cv))
    return out


def error_scale(inst, rel_exact=1e-9, rel_metric=4e-6):
    """deviation allowed between the library's and the reference's absolute points of an instance: relative error `rel`
    of every length and matrix entry on the way, amplified by the chain (inst["amp"], inst["terr"])"""
    rel = rel_metric if inst.get("metric") else rel_exact
    return rel


def compare(S, ctx, inst, got, monitor, name, other=None, rel=None):
    """got = lib_geometry(shape).  -> (ok, what, detail): what in {"kinds", "geometry", "direction"}.
    other: a second lib_geometry to compare with instead of the reference's absolute points (same error scale)"""
    ref = ref_geometry(inst)
    if other is not None:
        if "".join(k for k, _ in other) != "".join(k for k, _, _, _ in ref):
            return False, "kinds", "segments %s vs %s" % ("".join(k for k, _ in got), "".join(k for k, _ in other))
        ref = [(k, lp, op, cv) for (k, lp, _, cv), (_, op) in zip(ref, other)]
    kinds = "".join(k for k, _ in got)
    want = "".join(k for k, _, _, _ in ref)
    if kinds != want:
        return False, "kinds", "segments %s, expected %s" % (kinds, want)
    rel = rel or error_scale(inst)
    cond = m_cond(inst["ctm"])
    worst = 0.0
    for i, ((k, gp), (_, lp, ap, cv)) in enumerate(zip(got, ref)):
        S_loc = max([1e-3, inst.get("opmag", 0.0)] + [max(abs(p[0]), abs(p[1])) for p in lp])
        S_abs = max([1e-3] + [max(abs(p[0]), abs(p[1])) for p in ap])
        ecc = 1.0
        size = 0.0
        if cv[0] == "E":
            nu, nv = math.hypot(*cv[2]), math.hypot(*cv[3])
            ecc = max(nu, nv) / max(min(nu, nv), 1e-300)
            size = max(nu, nv) * inst["amp"]
        bound = rel * (S_abs + inst["terr"] + inst["amp"] * S_loc) * max(1.0, min(cond, 1e6) / 100.0) + 4e-9 * size * max(1.0, ecc / 100.0) + (8 * 2.3e-16 * S_abs * ecc * ecc if cv[0] == "E" else 0.0)
        if k == "A" and cv[0] == "E":
            # arcs of path data: the centre is solved from the end points (sqrt of cancelling noise)
            bound += 1e-6 * size
        dev = max(math.hypot(a[0] - b[0], a[1] - b[1]) for a, b in zip(gp, ap))
        r = ctx.see("%s-%s" % (monitor, k), dev / bound)
        worst = max(worst, r)
        if r > 1:
            rev = max(math.hypot(a[0] - b[0], a[1] - b[1]) for a, b in zip(gp, ap[::-1]))
            if k != "M" and rev <= bound:
                return False, "direction", "segment %d (%s) runs backwards: %s, expected %s" % (i, k, gp, ap)
            return False, "geometry", "segment %d (%s) passes %s, expected %s (deviation %.3g, bound %.3g)" % (i, k, gp, ap, dev, bound)
    return True, None, None
