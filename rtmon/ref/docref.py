"""Reference evaluation of an abstract SVG document (gen/documents.py): which shapes are rendered, in which order,
with which absolute geometry (and, for C14, paint).  Independent of the library; built on lengthref, viewportref,
matref, shaperef, pathref, arcref and bboxref's curve representation.

Semantics pinned here (SVG 2):
  * x/width-like percentages refer to the viewport width, y/height-like to its height, a circle's r (and a stroke
    width) to the normalised diagonal sqrt((w^2 + h^2) / 2);
  * the viewport of an svg element is its viewBox size when it has one, else its width/height; it applies to its
    content only (popped when the element closes);
  * an svg element contributes  transform (outside)  x  viewport transform; without a viewBox the viewport transform is
    translate(x, y); x/y of the outermost svg are ignored;
  * a use contributes  transform  x  translate(x, y)  and renders the referenced element in its place;
  * defs and display:none subtrees are not rendered (a use may still reference into defs).
"""
import math
from fractions import Fraction

from ..num import IDENT, m_apply, m_mul
from . import arcref, bboxref, lengthref, matref, pathref, shaperef, viewportref

AXIS = {"x": "x", "cx": "x", "x1": "x", "x2": "x", "width": "x", "rx": "x", "y": "y", "cy": "y", "y1": "y", "y2": "y", "height": "y", "ry": "y", "r": "d"}


class Config:
    def __init__(self, ppi=96.0, width=None, height=None, transform=None, metric=False):
        self.ppi = ppi
        self.width = width
        self.height = height
        self.transform = transform  # abstract fns or None
        self.metric = metric


def resolve(l, axis, vp, ppi):
    """user units (float) of an abstract length [value, unit] in a viewport (w, h)"""
    v, u = l
    if u == "%":
        if axis == "x":
            ref = vp[0]
        elif axis == "y":
            ref = vp[1]
        else:
            ref = math.sqrt((vp[0] ** 2 + vp[1] ** 2) / 2.0)
        return v * ref / 100.0
    r = lengthref.resolve(v, u, {"ppi": ppi})
    return float(r)


def geom_of(n, vp, ppi):
    """resolved geometry dict of a shape node (defaults applied)"""
    g = {k: resolve(v, AXIS[k], vp, ppi) for k, v in n.get("geom", {}).items()}
    t = n["tag"]
    if t == "rect":
        out = {"x": g.get("x", 0.0), "y": g.get("y", 0.0), "width": g.get("width", 0.0), "height": g.get("height", 0.0)}
        if out["width"] > 0 and out["height"] > 0:
            # the statement resolves every percentage against the nearest viewport (rx: its width, ry: its height)
            out["rx"], out["ry"] = shaperef.resolve_rect_radii(out["width"], out["height"], g.get("rx"), g.get("ry"))
        else:
            out["rx"] = out["ry"] = 0.0
        return out
    if t == "circle":
        return {"cx": g.get("cx", 0.0), "cy": g.get("cy", 0.0), "r": g.get("r", 0.0)}
    if t == "ellipse":
        return {"cx": g.get("cx", 0.0), "cy": g.get("cy", 0.0), "rx": g.get("rx", 0.0), "ry": g.get("ry", 0.0)}
    if t == "line":
        return {"x1": g.get("x1", 0.0), "y1": g.get("y1", 0.0), "x2": g.get("x2", 0.0), "y2": g.get("y2", 0.0)}
    if t in ("polyline", "polygon"):
        return {"points": [tuple(p) for p in n["points"]]}
    return {}


def path_curves(prog):
    """[(letter, curve)] of a path-data program"""
    out = []
    for e in pathref.interpret(prog):
        k = e["k"]
        if k == "M":
            out.append(("M", ("P", [e["end"]])))
        elif k in ("L", "Z"):
            out.append((k, ("P", [e["start"], e["end"]])))
        elif k == "Q":
            out.append(("Q", ("P", [e["start"], e["c1"], e["end"]])))
        elif k == "C":
            out.append(("C", ("P", [e["start"], e["c1"], e["c2"], e["end"]])))
        else:
            rx, ry, rot, fa, fs = e["arc"]
            r = arcref.endpoint_to_centre(e["start"][0], e["start"][1], rx, ry, rot, fa, fs, e["end"][0], e["end"][1])
            if r is None:
                out.append(("A", ("P", [e["start"], e["end"]])))
            else:
                c, s = math.cos(r.phi), math.sin(r.phi)
                out.append(("A", ("E", (r.cx, r.cy), (c * r.rx, s * r.rx), (-s * r.ry, c * r.ry), r.theta1, r.dtheta)))
    return out


def shape_curves(n, vp, ppi):
    t = n["tag"]
    if t == "path":
        return path_curves(n["prog"])
    kind = "line" if t == "line" else t
    return shaperef.equivalent(kind, geom_of(n, vp, ppi))


def _metric(g):
    return any(l[1] in ("cm", "mm") for l in g.values())


def _norm(m):
    """spectral-norm bound of the linear part"""
    return math.sqrt(m[0] * m[0] + m[1] * m[1] + m[2] * m[2] + m[3] * m[3])


class Frame:
    """the coordinate system at one point of the walk: ctm (local -> absolute), and the error amplification of the chain:
    amp = product of the norms of the steps, terr = sum of |translation| x amplification before it"""
    __slots__ = ("ctm", "amp", "terr", "metric")

    def __init__(self, ctm=IDENT, amp=1.0, terr=0.0, metric=False):
        self.ctm, self.amp, self.terr, self.metric = ctm, amp, terr, metric

    def step(self, mats, metric=False):
        """mats: elementary matrices, outermost first"""
        f = Frame(self.ctm, self.amp, self.terr, self.metric or metric)
        for m in mats:
            f.terr += f.amp * (abs(m[4]) + abs(m[5]))
            f.amp *= max(_norm(m), 1e-300)
            f.ctm = m_mul(m, f.ctm)
        return f


def m_mul_list(mats):
    m = IDENT
    for x in mats:
        m = m_mul(x, m)
    return m


def _fn_mats(fns, ppi):
    return [matref.fn_matrix(fn, ppi) for fn in fns] if fns else []


def evaluate(root, cfg, css=None):
    """list of rendered instances in document order:
    {"id", "tag", "chain": [(tag, id) of ancestors incl. use sites], "ctm", "curves": [(letter, curve in user space)], "vp", "node",
     "features": set(), "amp", "terr", "metric"}"""
    ids = {}

    def index(n):
        if n.get("id"):
            ids.setdefault(n["id"], n)
        for c in n.get("children", []):
            index(c)
    index(root)
    out = []
    ppi = cfg.ppi

    rules = root.get("rules", [])

    def walk(n, fr, vp, chain, feats, depth, env=None, vpctm=(1.0, IDENT)):
        t = n["tag"]
        if css is not None:
            env = env.child(n, rules)
            if env.display == "none":
                return
        elif n.get("attrs", {}).get("display") == "none":
            return
        own = _fn_mats(n.get("tf"), ppi)
        here = chain + [(t, n.get("id"))]
        if t == "svg":
            is_root = n.get("root", False)
            g = n.get("geom", {})
            ew = resolve(g["width"], "x", vp, ppi) if "width" in g else vp[0]
            eh = resolve(g["height"], "y", vp, ppi) if "height" in g else vp[1]
            ex = 0.0 if is_root or "x" not in g else resolve(g["x"], "x", vp, ppi)
            ey = 0.0 if is_root or "y" not in g else resolve(g["y"], "y", vp, ppi)
            if n.get("vb") is not None:
                par = None
                if n.get("par"):
                    parts = n["par"].split()
                    par = (parts[0], parts[1] if len(parts) > 1 else None)
                if not (ew > 0 and eh > 0 and n["vb"][2] > 0 and n["vb"][3] > 0):
                    return
                vt = viewportref.transform(ex, ey, ew, eh, tuple(n["vb"]), par)
                if vt is None:
                    return
                inner_vp = (n["vb"][2], n["vb"][3])
            else:
                if not (ew > 0 and eh > 0):
                    return
                vt = (1.0, 0.0, 0.0, 1.0, ex, ey)
                inner_vp = (ew, eh)
            f2 = set(feats)
            if not is_root:
                f2.add("in-nested-svg")
                f2.add("nested-svg-with-viewbox" if n.get("vb") is not None else "nested-svg-without-viewbox")
            elif n.get("vb") is not None:
                f2.add("root-viewbox")
            fr2 = fr.step(own + [vt], _metric(g))
            if n.get("vb") is not None:
                # the translation of a viewport transform is a difference of products of these operands (alignment terms cancel)
                vb_ = n["vb"]
                fr2.terr += fr.amp * max(1.0, _norm(m_mul_list(own))) * (abs(ex) + abs(ey) + ew + eh + (abs(vb_[0]) + abs(vb_[1]) + vb_[2] + vb_[3]) * max(abs(vt[0]), abs(vt[3])))
            # for non-scaling strokes: (product of the determinants of the enclosing viewBox transforms, CTM at the nearest svg with a viewBox)
            vp2 = (vpctm[0] * (vt[0] * vt[3] - vt[1] * vt[2]), fr2.ctm) if n.get("vb") is not None else vpctm
            for c in n.get("children", []):
                walk(c, fr2, inner_vp, here, f2, depth + 1, env, vp2)
            return
        if t == "defs":
            return
        if t == "g":
            fr2 = fr.step(own)
            for c in n.get("children", []):
                walk(c, fr2, vp, here, feats, depth + 1, env, vpctm)
            return
        if t == "use":
            g = n.get("geom", {})
            tx = resolve(g["x"], "x", vp, ppi) if "x" in g else 0.0
            ty = resolve(g["y"], "y", vp, ppi) if "y" in g else 0.0
            target = ids.get(n.get("href"))
            if target is not None and depth < 60:
                f2 = set(feats)
                f2.add("via-use")
                for k_, l_ in g.items():
                    if l_[1] == "%":
                        f2.add("use-percent-" + AXIS[k_])
                walk(target, fr.step(own + [(1.0, 0.0, 0.0, 1.0, tx, ty)], _metric(g)), vp, here, f2, depth + 1, env, vpctm)
            return
        if t in ("rect", "circle", "ellipse", "line", "polyline", "polygon", "path"):
            curves = shape_curves(n, vp, ppi)
            if not curves:
                return
            fr2 = fr.step(own, _metric(n.get("geom", {})))
            f2 = set(feats)
            for k, l in n.get("geom", {}).items():
                if l[1] == "%":
                    f2.add("percent-" + AXIS[k])
            opmag = sum(abs(resolve(l, AXIS[k], vp, ppi)) for k, l in n.get("geom", {}).items())
            out.append({"id": n["id"], "tag": t, "chain": here, "ctm": fr2.ctm, "curves": curves, "vp": vp, "node": n, "features": f2,
                        "amp": fr2.amp, "terr": fr2.terr, "metric": fr2.metric, "opmag": opmag, "env": env, "vpctm": vpctm})

    vb = root.get("vb")
    w0 = cfg.width if cfg.width is not None else (vb[2] if vb else 1000.0)
    h0 = cfg.height if cfg.height is not None else (vb[3] if vb else 1000.0)
    fr0 = Frame().step(_fn_mats(cfg.transform, ppi), bool(cfg.metric))
    walk(root, fr0, (w0, h0), [], set(), 0, css, (1.0, IDENT))
    return out


def sample(inst, n=4):
    """[(letter, [points in absolute space])] of a rendered instance"""
    res = []
    for k, cv in inst["curves"]:
        if k == "M":
            pts = [bboxref.point(cv, 0.0)]
        else:
            pts = [bboxref.point(cv, i / float(n)) for i in range(n + 1)]
        res.append((k, [m_apply(inst["ctm"], p) for p in pts]))
    return res
