"""A character-level scanner for the SVG 2 path-data grammar (independent of the library).

scan(text) -> abstract program in the pathref format, or raises ScanError(pos).
Used to guard the speller: the program a text was spelled from must be what the
grammar reads back from the text.
"""
WSP = "\t \n\x0c\r"
DIG = "0123456789"
NARGS = {"m": 2, "l": 2, "h": 1, "v": 1, "c": 6, "s": 4, "q": 4, "t": 2, "a": 7, "z": 0}


class ScanError(ValueError):
    def __init__(self, pos, msg, prog):
        ValueError.__init__(self, "%s at %d" % (msg, pos))
        self.pos = pos
        self.prog = prog


class _Sc:
    def __init__(self, text):
        self.t = text
        self.i = 0
        self.n = len(text)

    def wsp(self):
        while self.i < self.n and self.t[self.i] in WSP:
            self.i += 1

    def comma_wsp(self):
        """optional comma_wsp; returns True when at least one char was consumed"""
        j = self.i
        self.wsp()
        if self.i < self.n and self.t[self.i] == ",":
            self.i += 1
            self.wsp()
        return self.i > j

    def peek(self):
        return self.t[self.i] if self.i < self.n else ""

    def number(self):
        """sign? (digits ('.' digits*)? | '.' digits) exponent?   -> float or None (no consumption)"""
        t, i, n = self.t, self.i, self.n
        j = i
        if j < n and t[j] in "+-":
            j += 1
        k = j
        while k < n and t[k] in DIG:
            k += 1
        intd = k - j
        frac = 0
        if k < n and t[k] == ".":
            m = k + 1
            while m < n and t[m] in DIG:
                m += 1
            frac = m - (k + 1)
            if frac > 0:
                k = m
            elif intd == 0:
                return None
            # "1." (SVG 1.1 only) is not accepted: the dot is left unread
        if intd == 0 and frac == 0:
            return None
        if k < n and t[k] in "eE":
            m = k + 1
            if m < n and t[m] in "+-":
                m += 1
            e = m
            while e < n and t[e] in DIG:
                e += 1
            if e > m:
                k = e
        self.i = k
        return float(t[i:k])

    def flag(self):
        if self.i < self.n and self.t[self.i] in "01":
            self.i += 1
            return int(self.t[self.i - 1])
        return None


def scan(text):
    s = _Sc(text)
    prog = []
    s.wsp()
    first = True
    while s.i < s.n:
        L = s.peek()
        if L == "" or L.lower() not in NARGS:
            raise ScanError(s.i, "command letter expected", prog)
        if first and L not in "Mm":
            raise ScanError(s.i, "path data must begin with a moveto", prog)
        first = False
        s.i += 1
        low = L.lower()
        com = {"c": L, "g": [], "z": False}
        if low == "z":
            prog.append(com)
            s.wsp()
            continue
        s.wsp()
        need = NARGS[low]
        while True:
            g = []
            closing = False
            for k in range(need):
                if k > 0 or com["g"]:
                    save = s.i
                    sepd = s.comma_wsp()
                else:
                    sepd = True
                    save = s.i
                if low == "a" and k in (3, 4):
                    if k == 3 and not sepd:
                        raise ScanError(s.i, "separator required before the large-arc flag", prog)
                    v = s.flag()
                else:
                    v = s.number()
                if v is None:
                    # segment-completing closepath in place of the final pair?
                    zok = s.peek() in ("z", "Z") and low not in "mhv" and k == need - 2 and (low not in "lt" or not com["g"])
                    if zok:
                        closing = True
                        break
                    if k == 0 and com["g"]:
                        s.i = save
                        g = None
                        break
                    raise ScanError(s.i, "number expected", prog)
                g.append(v)
            if g is None:
                break
            com["g"].append(g)
            if closing:
                s.i += 1
                com["z"] = True
                break
        if not com["g"]:
            raise ScanError(s.i, "arguments expected", prog)
        prog.append(com)
        s.wsp()
    return prog
