"""A character-level scanner for the SVG 2 path-data grammar (independent of the library).

scan(text) -> abstract program in the pathref format, or raises ScanError(pos).
Used to guard the speller: the program a text was spelled from must be what the
grammar reads back from the text.
"""
WSP = "\t \n\x0c\r"
DIG = "0123456789"
NARGS = {"m": 2, "l": 2, "h": 1, "v": 1, "c": 6, "s": 4, "q": 4, "t": 2, "a": 7, "z": 0}


class ScanError(ValueError):
    def __init__(self, pos, msg, prog):
        ValueError.__init__(self, "%s at %d" % (msg, pos))
        self.pos = pos
        self.prog = prog


class _Sc:
    def __init__(self, text, lenient=False):
        self.t = text
        self.i = 0
        self.n = len(text)
        # lenient: commas are accepted wherever white space is (the library's documented tokenisation:
        # one separator class for both); strict: the SVG 2 EBNF
        self.ws = WSP + "," if lenient else WSP
        self.lenient = lenient

    def wsp(self):
        while self.i < self.n and self.t[self.i] in self.ws:
            self.i += 1

    def comma_wsp(self):
        """optional comma_wsp; returns True when at least one char was consumed"""
        j = self.i
        self.wsp()
        if not self.lenient and self.i < self.n and self.t[self.i] == ",":
            self.i += 1
            self.wsp()
        return self.i > j

    def peek(self):
        return self.t[self.i] if self.i < self.n else ""

    def number(self):
        """sign? (digits ('.' digits*)? | '.' digits) exponent?   -> float or None (no consumption)"""
        t, i, n = self.t, self.i, self.n
        j = i
        if j < n and t[j] in "+-":
            j += 1
        k = j
        while k < n and t[k] in DIG:
            k += 1
        intd = k - j
        frac = 0
        if k < n and t[k] == ".":
            m = k + 1
            while m < n and t[m] in DIG:
                m += 1
            frac = m - (k + 1)
            if frac > 0:
                k = m
            elif intd == 0:
                return None
            # "1." (SVG 1.1 only) is not accepted: the dot is left unread
        if intd == 0 and frac == 0:
            return None
        if k < n and t[k] in "eE":
            m = k + 1
            if m < n and t[m] in "+-":
                m += 1
            e = m
            while e < n and t[e] in DIG:
                e += 1
            if e > m:
                k = e
        self.i = k
        return float(t[i:k])

    def flag(self):
        if self.i < self.n and self.t[self.i] in "01":
            self.i += 1
            return int(self.t[self.i - 1])
        return None


def scan_prefix(text, fragment=False, lenient=False):
    """longest valid prefix of arbitrary text.

    returns (prog, error_position or None, partial): prog holds every complete command and, for the command in
    which the error occurred, its complete argument groups; `partial` is True when the last command ended in a
    closepath that replaced more than the final coordinate pair (allowed by the SVG 2 EBNF, semantics not
    pinned by its prose - callers do not compare that command).  With fragment=True the data may begin with
    any command (the library's path-fragment extension).
    """
    s = _Sc(text, lenient)
    prog = []
    s.wsp()
    first = True
    partial = False
    while s.i < s.n:
        L = s.peek()
        if L == "" or L.lower() not in NARGS or ord(L) > 127:
            return prog, s.i, partial
        if first and L not in "Mm" and not fragment:
            return prog, s.i, partial
        first = False
        s.i += 1
        low = L.lower()
        com = {"c": L, "g": [], "z": False}
        if low == "z":
            prog.append(com)
            s.wsp()
            continue
        s.wsp()
        need = NARGS[low]
        err = None
        while True:
            g = []
            closing = False
            for k in range(need):
                save = s.i
                if k > 0 or com["g"]:
                    sepd = s.comma_wsp()
                else:
                    sepd = True
                if low == "a" and k in (3, 4):
                    v = s.flag() if (k == 4 or sepd) else None
                else:
                    v = s.number()
                if v is None:
                    if s.peek() in ("z", "Z") and s.peek() != "" and low not in "mhv":
                        if k == need - 2 and (low not in "lt" or not com["g"]):
                            closing = True
                            break
                        if low in "csq" and k % 2 == 0 and not (k == 0 and com["g"]):
                            closing = True
                            partial = True
                            break
                    if k == 0 and com["g"]:
                        s.i = save
                        g = None
                        break
                    err = s.i
                    g = None
                    break
                g.append(v)
            if g is None:
                break
            com["g"].append(g)
            if closing:
                s.i += 1
                com["z"] = True
                if partial:
                    com["partial"] = True
                break
        if err is not None:
            if com["g"]:
                prog.append(com)
            return prog, err, partial
        if not com["g"]:
            return prog, s.i, partial
        prog.append(com)
        if partial:
            # what follows a partially completed command is not compared
            s.wsp()
            return prog, None if s.i >= s.n else s.i, True
        s.wsp()
    return prog, None, partial


def scan(text):
    prog, err, partial = scan_prefix(text)
    if err is not None or partial:
        raise ScanError(err if err is not None else len(text), "not conforming", prog)
    return prog
