"""Reference cascade for the selector subset of C14 (independent of the library).

Specificity (ids, classes, types); presentation attributes count as author rules of specificity 0 placed before the sheet;
inline style beats every rule.  fill, stroke, stroke-width, fill-opacity, stroke-opacity and color are inherited; display and
vector-effect are not.  Defaults: fill black, stroke none, stroke-width 1, opacities 1, color = the caller's.
"""
import math

from ..gen import styles as GS

INHERITED = ["fill", "stroke", "stroke-width", "fill-opacity", "stroke-opacity", "color"]
OWN = ["display", "vector-effect"]


def specificity(sel):
    if sel == "*":
        return (0, 0, 0)
    if sel.startswith("#"):
        return (1, 0, 0)
    if sel.startswith("."):
        return (0, 1, 0)
    if "." in sel:
        return (0, 1, 1)
    return (0, 0, 1)


def matches(sel, n):
    if sel == "*":
        return True
    if sel.startswith("#"):
        return n.get("id") == sel[1:]
    if sel.startswith("."):
        return sel[1:] in n.get("klass", [])
    if "." in sel:
        t, c = sel.split(".", 1)
        return n["tag"] == t and c in n.get("klass", [])
    return n["tag"] == sel


def source_kind(sel, nsels):
    if nsels > 1:
        return "list"
    if sel == "*":
        return "*"
    if sel.startswith("#"):
        return "#id"
    if sel.startswith("."):
        return ".class"
    if "." in sel:
        return "type.class"
    return "type"


def candidates(n, rules):
    """{prop: [(priority tuple, source kind, value text)]} sorted, the winner last"""
    c = {}
    for p, v in n.get("attrs", {}).items():
        if p in INHERITED or p in OWN:
            c.setdefault(p, []).append(((0, (0, 0, 0), -1), "attr", v))
    for i, r in enumerate(rules):
        if n.get("root"):
            break  # the sheet is inside the outermost svg (see gen/styles.py); unobservable for the rules that are generated
        best = None
        for s in r["sels"]:
            if matches(s, n):
                sp = specificity(s)
                if best is None or sp > best[0]:
                    best = (sp, s)
        if best is None:
            continue
        for p, v in r["decls"]:
            c.setdefault(p, []).append(((1, best[0], i), source_kind(best[1], len(r["sels"])), v))
    for j, (p, v) in enumerate(n.get("inline", [])):
        c.setdefault(p, []).append(((2, (0, 0, 0), j), "inline", v))
    for p in c:
        c[p].sort(key=lambda t: t[0])
    return c


class Env:
    """computed style context of one element instance"""

    def __init__(self, caller_color):
        self.v = {"fill": "black", "stroke": "none", "stroke-width": "1", "fill-opacity": "1", "stroke-opacity": "1", "color": caller_color}
        self.src = {p: "default" for p in self.v}
        # for currentColor: the colour in force where the property was declared (CSS Color 3) - compared with the colour in
        # force at the element itself (CSS Color 4) to detect the cases on which the two readings differ
        self.color_at = {"fill": caller_color, "stroke": caller_color}
        self.display = None
        self.vector_effect = None
        self.cands = {}
        self.parent_v = dict(self.v)

    def child(self, n, rules):
        e = Env.__new__(Env)
        e.v = dict(self.v)
        e.src = {p: ("inherited" if self.src[p] != "default" else "default") for p in self.v}
        e.color_at = dict(self.color_at)
        e.parent_v = dict(self.v)
        c = candidates(n, rules)
        e.cands = c
        if "color" in c:
            e.v["color"] = c["color"][-1][2]
            e.src["color"] = c["color"][-1][1]
        for p in INHERITED:
            if p == "color" or p not in c:
                continue
            e.v[p] = c[p][-1][2]
            e.src[p] = c[p][-1][1]
            if p in ("fill", "stroke"):
                e.color_at[p] = e.v["color"]
        e.display = c["display"][-1][2] if "display" in c else None
        e.vector_effect = c["vector-effect"][-1][2] if "vector-effect" in c else None
        return e

    def paint(self):
        """{"fill": rgba|None, "stroke": rgba|None, "stroke-width": float, "ambiguous": set()}"""
        out = {"ambiguous": set()}
        for p, op in (("fill", "fill-opacity"), ("stroke", "stroke-opacity")):
            m = GS.MEANING[("colour", self.v[p])]
            if m == "current":
                if self.color_at[p] != self.v["color"]:
                    out["ambiguous"].add(p)
                m = GS.MEANING[("colour", self.v["color"])]
            if m is None:
                out[p] = None
            else:
                o = GS.MEANING[("opacity", self.v[op])]
                out[p] = (m[0], m[1], m[2], m[3] * o)  # alpha as a real number 0..255
        out["stroke-width"] = GS.MEANING[("width", self.v["stroke-width"])]
        return out
