"""The SVG 1.1 / CSS 3 colour keyword table (147 names) and CSS colour function semantics, independent of the library."""
import colorsys

_T = """aliceblue f0f8ff antiquewhite faebd7 aqua 00ffff aquamarine 7fffd4 azure f0ffff beige f5f5dc bisque ffe4c4 black 000000
blanchedalmond ffebcd blue 0000ff blueviolet 8a2be2 brown a52a2a burlywood deb887 cadetblue 5f9ea0 chartreuse 7fff00 chocolate d2691e
coral ff7f50 cornflowerblue 6495ed cornsilk fff8dc crimson dc143c cyan 00ffff darkblue 00008b darkcyan 008b8b darkgoldenrod b8860b
darkgray a9a9a9 darkgreen 006400 darkgrey a9a9a9 darkkhaki bdb76b darkmagenta 8b008b darkolivegreen 556b2f darkorange ff8c00
darkorchid 9932cc darkred 8b0000 darksalmon e9967a darkseagreen 8fbc8f darkslateblue 483d8b darkslategray 2f4f4f darkslategrey 2f4f4f
darkturquoise 00ced1 darkviolet 9400d3 deeppink ff1493 deepskyblue 00bfff dimgray 696969 dimgrey 696969 dodgerblue 1e90ff
firebrick b22222 floralwhite fffaf0 forestgreen 228b22 fuchsia ff00ff gainsboro dcdcdc ghostwhite f8f8ff gold ffd700 goldenrod daa520
gray 808080 grey 808080 green 008000 greenyellow adff2f honeydew f0fff0 hotpink ff69b4 indianred cd5c5c indigo 4b0082 ivory fffff0
khaki f0e68c lavender e6e6fa lavenderblush fff0f5 lawngreen 7cfc00 lemonchiffon fffacd lightblue add8e6 lightcoral f08080
lightcyan e0ffff lightgoldenrodyellow fafad2 lightgray d3d3d3 lightgreen 90ee90 lightgrey d3d3d3 lightpink ffb6c1 lightsalmon ffa07a
lightseagreen 20b2aa lightskyblue 87cefa lightslategray 778899 lightslategrey 778899 lightsteelblue b0c4de lightyellow ffffe0
lime 00ff00 limegreen 32cd32 linen faf0e6 magenta ff00ff maroon 800000 mediumaquamarine 66cdaa mediumblue 0000cd mediumorchid ba55d3
mediumpurple 9370db mediumseagreen 3cb371 mediumslateblue 7b68ee mediumspringgreen 00fa9a mediumturquoise 48d1cc mediumvioletred c71585
midnightblue 191970 mintcream f5fffa mistyrose ffe4e1 moccasin ffe4b5 navajowhite ffdead navy 000080 oldlace fdf5e6 olive 808000
olivedrab 6b8e23 orange ffa500 orangered ff4500 orchid da70d6 palegoldenrod eee8aa palegreen 98fb98 paleturquoise afeeee
palevioletred db7093 papayawhip ffefd5 peachpuff ffdab9 peru cd853f pink ffc0cb plum dda0dd powderblue b0e0e6 purple 800080 red ff0000
rosybrown bc8f8f royalblue 4169e1 saddlebrown 8b4513 salmon fa8072 sandybrown f4a460 seagreen 2e8b57 seashell fff5ee sienna a0522d
silver c0c0c0 skyblue 87ceeb slateblue 6a5acd slategray 708090 slategrey 708090 snow fffafa springgreen 00ff7f steelblue 4682b4
tan d2b48c teal 008080 thistle d8bfd8 tomato ff6347 turquoise 40e0d0 violet ee82ee wheat f5deb3 white ffffff whitesmoke f5f5f5
yellow ffff00 yellowgreen 9acd32"""
_w = _T.split()
KEYWORDS = {_w[i]: int(_w[i + 1], 16) for i in range(0, len(_w), 2)}

# the 16 (+orange) CSS 2.1 basic colours, as an independent cross-check of the transcription
BASIC = {"black": 0x000000, "silver": 0xC0C0C0, "gray": 0x808080, "white": 0xFFFFFF, "maroon": 0x800000, "red": 0xFF0000, "purple": 0x800080,
         "fuchsia": 0xFF00FF, "green": 0x008000, "lime": 0x00FF00, "olive": 0x808000, "yellow": 0xFFFF00, "navy": 0x000080, "blue": 0x0000FF,
         "teal": 0x008080, "aqua": 0x00FFFF, "orange": 0xFFA500}


def clamp(v, lo, hi):
    return lo if v < lo else hi if v > hi else v


def rgb_int(r, g, b):
    """rgb() with integers: clamped to 0..255"""
    return tuple(int(clamp(v, 0, 255)) for v in (r, g, b))


def rgb_percent(r, g, b):
    """rgb() with percentages: clamped to 0..100 %, exact channel value in 0..255 (callers allow +-1 for rounding)"""
    return tuple(clamp(v, 0.0, 100.0) * 255.0 / 100.0 for v in (r, g, b))


def hsl(h_deg, s_pct, l_pct):
    """hsl(): hue modulo a full turn, saturation and lightness clamped; exact channel values in 0..255"""
    h = (h_deg % 360.0) / 360.0
    s = clamp(s_pct, 0.0, 100.0) / 100.0
    l = clamp(l_pct, 0.0, 100.0) / 100.0
    r, g, b = colorsys.hls_to_rgb(h, l, s)
    return (r * 255.0, g * 255.0, b * 255.0)


def alpha(a):
    return clamp(a, 0.0, 1.0) * 255.0
