"""Reference semantics of SVG 1.1 / CSS-2D transform lists (independent of the library).

A transform list denotes the product of its functions; the right-most function is
applied to a point first.  Matrices are tuples (a, b, c, d, e, f) meaning
x' = a x + c y + e, y' = b x + d y + f  (num.py conventions; m_mul(first, then)).
"""
import math

from ..num import IDENT, m_mul

ANGLE = {"deg": math.pi / 180.0, "": math.pi / 180.0, "grad": math.pi / 200.0, "rad": 1.0, "turn": 2.0 * math.pi}


def length_units(value, unit, axis, ppi=None, width=None, height=None):
    """user units of a CSS length; None when the context needed is missing"""
    if unit in ("", "px"):
        return value
    if unit == "pt":
        return value * 4.0 / 3.0
    if unit == "pc":
        return value * 16.0
    if unit in ("in", "cm", "mm"):
        if ppi is None:
            return None
        return value * ppi / {"in": 1.0, "cm": 2.54, "mm": 25.4}[unit]
    if unit == "%":
        ref = width if axis == "x" else height
        if ref is None:
            return None
        return value * ref / 100.0
    raise ValueError(unit)


def T(x, y):
    return (1.0, 0.0, 0.0, 1.0, x, y)


def Sc(x, y):
    return (x, 0.0, 0.0, y, 0.0, 0.0)


def Rot(a):
    return (math.cos(a), math.sin(a), -math.sin(a), math.cos(a), 0.0, 0.0)


def Sk(a, b):
    return (1.0, math.tan(b), math.tan(a), 1.0, 0.0, 0.0)


def about(m, cx, cy):
    """m applied about the centre (cx, cy): translate(-c) first, then m, then translate(c)"""
    return m_mul(m_mul(T(-cx, -cy), m), T(cx, cy))


def fn_matrix(fn, ppi=None, width=None, height=None):
    """matrix of one abstract function {"fn": name, "args": [[value, unit], ...]}"""
    name = fn["fn"].lower()
    a = fn["args"]

    def L(i, axis):
        v = length_units(a[i][0], a[i][1], axis, ppi, width, height)
        if v is None:
            raise LookupError("unresolvable")
        return v

    def A(i):
        return a[i][0] * ANGLE[a[i][1]]

    if name == "matrix":
        return tuple(float(x[0]) for x in a)
    if name == "translate":
        return T(L(0, "x"), L(1, "y") if len(a) > 1 else 0.0)
    if name == "translatex":
        return T(L(0, "x"), 0.0)
    if name == "translatey":
        return T(0.0, L(0, "y"))
    if name == "scale":
        return Sc(a[0][0], a[1][0] if len(a) > 1 else a[0][0])
    if name == "scalex":
        return Sc(a[0][0], 1.0)
    if name == "scaley":
        return Sc(1.0, a[0][0])
    if name == "rotate":
        m = Rot(A(0))
        if len(a) == 3:
            return about(m, L(1, "x"), L(2, "y"))
        return m
    if name == "skew":
        return Sk(A(0), A(1) if len(a) > 1 else 0.0)
    if name == "skewx":
        return Sk(A(0), 0.0)
    if name == "skewy":
        return Sk(0.0, A(0))
    raise ValueError(name)


def list_matrix(fns, ppi=None, width=None, height=None):
    """the transform list's matrix: right-most function acts on the point first"""
    m = IDENT
    for fn in reversed(fns):
        m = m_mul(m, fn_matrix(fn, ppi, width, height))
    return m
