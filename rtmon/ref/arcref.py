"""SVG 1.1 implementation notes F.6.5 / F.6.6: endpoint -> centre parameterisation.

Independent of the library.  Angles in radians.  Returns None for the two
degenerate cases the specification treats separately (coincident endpoints:
nothing is drawn; a zero radius: a straight line).
"""
import math


def _angle(ux, uy, vx, vy):
    """signed angle from u to v (F.6.5.4)"""
    n = math.hypot(ux, uy) * math.hypot(vx, vy)
    c = (ux * vx + uy * vy) / n
    c = max(-1.0, min(1.0, c))
    a = math.acos(c)
    if ux * vy - uy * vx < 0:
        a = -a
    return a


class CentreArc:
    __slots__ = ("cx", "cy", "rx", "ry", "phi", "theta1", "dtheta", "scaled", "lam")

    def point(self, t):
        """the point at fraction t of the sweep"""
        th = self.theta1 + t * self.dtheta
        c, s = math.cos(self.phi), math.sin(self.phi)
        x, y = self.rx * math.cos(th), self.ry * math.sin(th)
        return (self.cx + c * x - s * y, self.cy + s * x + c * y)

    def size(self):
        return max(self.rx, self.ry)


def endpoint_to_centre(x1, y1, rx, ry, phi_deg, fa, fs, x2, y2):
    if x1 == x2 and y1 == y2:
        return None
    if rx == 0 or ry == 0:
        return None
    rx, ry = abs(rx), abs(ry)  # F.6.6.1
    phi = math.radians(phi_deg % 360.0)
    c, s = math.cos(phi), math.sin(phi)
    dx2, dy2 = (x1 - x2) / 2.0, (y1 - y2) / 2.0
    x1p = c * dx2 + s * dy2  # F.6.5.1
    y1p = -s * dx2 + c * dy2
    lam = (x1p * x1p) / (rx * rx) + (y1p * y1p) / (ry * ry)  # F.6.6.2
    scaled = False
    if lam > 1:
        k = math.sqrt(lam)
        rx, ry = k * rx, k * ry
        scaled = True
    num = rx * rx * ry * ry - rx * rx * y1p * y1p - ry * ry * x1p * x1p
    den = rx * rx * y1p * y1p + ry * ry * x1p * x1p
    co = math.sqrt(max(0.0, num / den))  # F.6.5.2
    if bool(fa) == bool(fs):
        co = -co
    cxp = co * rx * y1p / ry
    cyp = -co * ry * x1p / rx
    cx = c * cxp - s * cyp + (x1 + x2) / 2.0  # F.6.5.3
    cy = s * cxp + c * cyp + (y1 + y2) / 2.0
    ux, uy = (x1p - cxp) / rx, (y1p - cyp) / ry
    vx, vy = (-x1p - cxp) / rx, (-y1p - cyp) / ry
    theta1 = _angle(1.0, 0.0, ux, uy)  # F.6.5.5
    dtheta = _angle(ux, uy, vx, vy)  # F.6.5.6
    # "modulo 360": a half turn is +-180 whichever way round-off fell
    if not fs and dtheta > 0:
        dtheta -= 2 * math.pi
    elif fs and dtheta < 0:
        dtheta += 2 * math.pi
    a = CentreArc()
    a.cx, a.cy, a.rx, a.ry, a.phi, a.theta1, a.dtheta, a.scaled, a.lam = cx, cy, rx, ry, phi, theta1, dtheta, scaled, lam
    return a
