"""Exact bounding boxes of reference curves (independent of the library).

A reference curve is one of
  ("P", [pts])                     Bezier of degree len(pts)-1 (1: line, 2: quadratic, 3: cubic); a move is ("P",[p])
  ("E", c, u, v, th1, sweep)       elliptical arc  c + u cos(th) + v sin(th),  th in [th1, th1+sweep]
An affine map keeps both forms (control points / c,u,v are mapped, the parameter range is unchanged).
"""
import math


def map_curve(cv, m):
    a, b, c, d, e, f = m
    P = lambda p: (a * p[0] + c * p[1] + e, b * p[0] + d * p[1] + f)
    V = lambda p: (a * p[0] + c * p[1], b * p[0] + d * p[1])
    if cv[0] == "P":
        return ("P", [P(p) for p in cv[1]])
    return ("E", P(cv[1]), V(cv[2]), V(cv[3]), cv[4], cv[5])


def _quad_roots(a, b, c):
    """real roots of a t^2 + b t + c (stable form)"""
    if a == 0:
        return [] if b == 0 else [-c / b]
    disc = b * b - 4 * a * c
    if disc < 0:
        # a double root lost to rounding
        if disc > -1e-12 * (b * b + abs(4 * a * c)):
            return [-b / (2 * a)]
        return []
    q = -0.5 * (b + math.copysign(math.sqrt(disc), b))
    out = []
    if q != 0:
        out.append(c / q)
    out.append(q / a)
    return out


def _bez(ps, t):
    pts = list(ps)
    while len(pts) > 1:
        pts = [((1 - t) * p[0] + t * q[0], (1 - t) * p[1] + t * q[1]) for p, q in zip(pts, pts[1:])]
    return pts[0]


def point(cv, t):
    if cv[0] == "P":
        return _bez(cv[1], t)
    _, c, u, v, th1, sw = cv
    th = th1 + t * sw
    return (c[0] + u[0] * math.cos(th) + v[0] * math.sin(th), c[1] + u[1] * math.cos(th) + v[1] * math.sin(th))


def extrema_params(cv):
    """parameters t in (0,1) where x or y is stationary"""
    ts = []
    if cv[0] == "P":
        ps = cv[1]
        n = len(ps) - 1
        for ax in (0, 1):
            p = [q[ax] for q in ps]
            if n == 2:
                d = p[0] - 2 * p[1] + p[2]
                if d != 0:
                    ts.append((p[0] - p[1]) / d)
            elif n == 3:
                a = -p[0] + 3 * p[1] - 3 * p[2] + p[3]
                b = 2 * (p[0] - 2 * p[1] + p[2])
                c = p[1] - p[0]
                ts += _quad_roots(a, b, c)
        return [t for t in ts if 0 < t < 1]
    _, c, u, v, th1, sw = cv
    if sw == 0:
        return []
    for ax in (0, 1):
        base = math.atan2(v[ax], u[ax])
        lo, hi = (th1, th1 + sw) if sw > 0 else (th1 + sw, th1)
        k0 = math.ceil((lo - base) / math.pi)
        k = k0
        while base + k * math.pi <= hi:
            th = base + k * math.pi
            ts.append((th - th1) / sw)
            k += 1
    return [t for t in ts if 0 < t < 1]


def box(cv, samples=0):
    """(xmin, ymin, xmax, ymax) from end points and stationary points (+ optional dense sampling as a cross-check)"""
    ts = [0.0, 1.0] + extrema_params(cv)
    if samples:
        ts += [i / float(samples) for i in range(samples + 1)]
    pts = [point(cv, t) for t in ts]
    return (min(p[0] for p in pts), min(p[1] for p in pts), max(p[0] for p in pts), max(p[1] for p in pts))


def union(boxes):
    boxes = [b for b in boxes if b is not None]
    if not boxes:
        return None
    return (min(b[0] for b in boxes), min(b[1] for b in boxes), max(b[2] for b in boxes), max(b[3] for b in boxes))


def from_spec(spec):
    """reference curve of a gen.geometry segment spec"""
    from . import arcref

    k = spec["k"]
    if k == "M":
        return ("P", [tuple(spec["p"])])
    if k in ("L", "Z"):
        return ("P", [tuple(spec["s"]), tuple(spec["e"])])
    if k == "Q":
        return ("P", [tuple(spec["s"]), tuple(spec["c"]), tuple(spec["e"])])
    if k == "C":
        return ("P", [tuple(spec["s"]), tuple(spec["c1"]), tuple(spec["c2"]), tuple(spec["e"])])
    if "arc" in spec:
        a = spec["arc"]
        r = arcref.endpoint_to_centre(*a)
        if r is None:
            return ("P", [(a[0], a[1]), (a[7], a[8])])
        c, s = math.cos(r.phi), math.sin(r.phi)
        return ("E", (r.cx, r.cy), (c * r.rx, s * r.rx), (-s * r.ry, c * r.ry), r.theta1, r.dtheta)
    cx, cy, rx, ry, phi, th1, sw = spec["carc"]
    c, s = math.cos(phi), math.sin(phi)
    return ("E", (cx, cy), (c * rx, s * rx), (-s * ry, c * ry), th1, sw)
