"""Reference interpreter for SVG path data, over an *abstract program*.

A program is a list of commands {"c": letter, "g": [[numbers...], ...], "z": bool}:
`g` holds one argument group per implicit repetition, `z` says that the final
coordinate pair of the last group is replaced by a segment-completing closepath
(SVG 2), which also closes the subpath.  The interpreter shares no tokenizer with
the library: it never sees the text.

Output: a list of reference segments, dicts with
  k      'M' 'L' 'Z' 'Q' 'C' 'A'
  start  current point before the segment (None before the first move)
  c1,c2  control points (Q: c1 only)
  end    end point
  arc    (rx, ry, rotation_deg, large, sweep) for arcs
  cmd    the command letter that produced it, prev: the letter before
  S      magnitude of the numbers that entered its computation
"""

NPAIRS = {"m": 1, "l": 1, "c": 3, "s": 2, "q": 2, "t": 1}


class PathError(ValueError):
    def __init__(self, msg, segments):
        ValueError.__init__(self, msg)
        self.segments = segments


def interpret(prog):
    segs = []
    cur = None  # current point
    start = None  # start of the current subpath
    lastc = None  # last control point
    lastdeg = 0  # degree of the curve that owns lastc (2, 3 or 0)
    prev_cmd = None

    running = [1e-3]  # errors of relative offsets and reflections are inherited along the path

    def emit(k, s, c1, c2, e, cmd, arc=None, extra=()):
        vals = [abs(v) for p in (s, c1, c2, e) if p is not None for v in p] + [abs(v) for v in extra]
        running[0] = max(vals + running)
        segs.append({"k": k, "start": s, "c1": c1, "c2": c2, "end": e, "arc": arc, "cmd": cmd, "prev": prev_cmd, "S": running[0]})

    for com in prog:
        L = com["c"]
        rel = L.islower()
        low = L.lower()
        groups = com["g"]
        if low == "z":
            if cur is None:
                raise PathError("close without current point", segs)
            emit("Z", cur, None, None, start, L)
            cur = start
            lastc, lastdeg = None, 0
            prev_cmd = L
            continue
        if cur is None and low != "m":
            raise PathError("drawing command without current point", segs)
        for gi, g in enumerate(groups):
            usez = bool(com.get("z")) and gi == len(groups) - 1

            def pt(i):
                x, y = g[i], g[i + 1]
                if rel and cur is not None:
                    return (x + cur[0], y + cur[1])
                return (x, y)

            if low == "m":
                p = pt(0)
                if gi == 0:
                    emit("M", cur, None, None, p, L, extra=g[:2])
                    start = p
                else:
                    emit("L", cur, None, None, p, L, extra=g[:2])
                cur = p
                lastc, lastdeg = None, 0
            elif low == "l":
                p = start if usez else pt(0)
                emit("L", cur, None, None, p, L, extra=g[:2])
                cur = p
                lastc, lastdeg = None, 0
            elif low == "h":
                p = ((g[0] + cur[0]) if rel else g[0], cur[1])
                emit("L", cur, None, None, p, L, extra=g[:1])
                cur = p
                lastc, lastdeg = None, 0
            elif low == "v":
                p = (cur[0], (g[0] + cur[1]) if rel else g[0])
                emit("L", cur, None, None, p, L, extra=g[:1])
                cur = p
                lastc, lastdeg = None, 0
            elif low == "c":
                c1, c2 = pt(0), pt(2)
                e = start if usez else pt(4)
                emit("C", cur, c1, c2, e, L, extra=g)
                cur, lastc, lastdeg = e, c2, 3
            elif low == "s":
                c1 = (2 * cur[0] - lastc[0], 2 * cur[1] - lastc[1]) if lastdeg == 3 else cur
                c2 = pt(0)
                e = start if usez else pt(2)
                emit("C", cur, c1, c2, e, L, extra=list(g) + (list(lastc) if lastdeg == 3 else []))
                cur, lastc, lastdeg = e, c2, 3
            elif low == "q":
                c1 = pt(0)
                e = start if usez else pt(2)
                emit("Q", cur, c1, None, e, L, extra=g)
                cur, lastc, lastdeg = e, c1, 2
            elif low == "t":
                c1 = (2 * cur[0] - lastc[0], 2 * cur[1] - lastc[1]) if lastdeg == 2 else cur
                e = start if usez else pt(0)
                emit("Q", cur, c1, None, e, L, extra=list(g) + (list(lastc) if lastdeg == 2 else []))
                cur, lastc, lastdeg = e, c1, 2
            elif low == "a":
                e = start if usez else pt(5)
                emit("A", cur, None, None, e, L, arc=(g[0], g[1], g[2], int(g[3]), int(g[4])), extra=g[5:7])
                cur = e
                lastc, lastdeg = None, 0
            else:
                raise ValueError(L)
            prev_cmd = L
        if com.get("z"):
            # the segment-completing closepath is a closepath as well
            emit("Z", cur, None, None, start, "z")
            cur = start
            lastc, lastdeg = None, 0
            prev_cmd = "z"
    return segs
