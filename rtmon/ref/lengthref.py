"""CSS lengths in exact rational arithmetic (independent of the library).

resolve(amount, unit, ctx) -> Fraction in user units, or None when the context needed is missing (the length must
then stay symbolic).  ctx keys: ppi, relative_length (a number, or (amount, unit) resolved recursively), font_size,
font_height, viewbox (x, y, w, h).
"""
from fractions import Fraction as F

UNITS = ["", "px", "pt", "pc", "in", "cm", "mm", "%", "em", "ex", "vw", "vh", "vmin", "vmax"]
PIXEL = {"": F(1), "px": F(1), "pt": F(4, 3), "pc": F(16)}
INCH = {"in": F(1), "cm": F(100, 254), "mm": F(10, 254)}  # in inches


def family(u):
    if u in PIXEL:
        return "pixel"
    if u in INCH:
        return "absolute"
    return u


def frac(x):
    return x if isinstance(x, F) else F(repr(float(x))) if not isinstance(x, int) else F(x)


def resolve(amount, unit, ctx=None):
    ctx = ctx or {}
    a = frac(amount)
    if unit in PIXEL:
        return a * PIXEL[unit]
    if unit in INCH:
        ppi = ctx.get("ppi")
        return None if ppi is None else a * INCH[unit] * frac(ppi)
    if unit == "%":
        ref = ctx.get("relative_length")
        if ref is None:
            return None
        if isinstance(ref, (tuple, list)):
            sub = dict(ctx)
            sub.pop("relative_length", None)
            ref = resolve(ref[0], ref[1], sub)
            if ref is None:
                return None
        return a * frac(ref) / 100
    if unit == "em":
        fs = ctx.get("font_size")
        return None if fs is None else a * frac(fs)
    if unit == "ex":
        fh = ctx.get("font_height")
        return None if fh is None else a * frac(fh)
    vb = ctx.get("viewbox")
    if vb is None:
        return None
    w, h = frac(vb[2]), frac(vb[3])
    if unit == "vw":
        return a * w / 100
    if unit == "vh":
        return a * h / 100
    if unit == "vmin":
        return a * min(w, h) / 100
    if unit == "vmax":
        return a * max(w, h) / 100
    raise ValueError(unit)


def common(u1, u2):
    """can lengths in these units be combined without any context?  -> a function giving both in one scale, or None"""
    f1, f2 = family(u1), family(u2)
    if f1 != f2:
        return None
    if f1 == "pixel":
        return lambda a, u: frac(a) * PIXEL[u]
    if f1 == "absolute":
        return lambda a, u: frac(a) * INCH[u]
    return lambda a, u: frac(a)  # the very same unit
