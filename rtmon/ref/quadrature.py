"""Reference arc lengths by adaptive Gauss-Legendre quadrature of the speed function.

Curves use the representation of bboxref: ("P", [control points]) and ("E", c, u, v, th1, sweep).
length(cv) -> (value, error_estimate, capped); a capped or badly converged value makes the case inconclusive.
"""
import math


def _gl_nodes(n):
    xs, ws = [], []
    for i in range(1, n + 1):
        x = math.cos(math.pi * (i - 0.25) / (n + 0.5))
        for _ in range(100):
            p0, p1 = 1.0, x
            for k in range(2, n + 1):
                p0, p1 = p1, ((2 * k - 1) * x * p1 - (k - 1) * p0) / k
            dp = n * (x * p1 - p0) / (x * x - 1)
            dx = p1 / dp
            x -= dx
            if abs(dx) < 1e-16:
                break
        xs.append(x)
        ws.append(2 / ((1 - x * x) * dp * dp))
    return xs, ws


XS, WS = _gl_nodes(24)


def _gl(f, a, b):
    m, h = (a + b) / 2, (b - a) / 2
    return h * sum(w * f(m + h * x) for x, w in zip(XS, WS))


def integrate(f, a, b, breaks=(), tol=1e-13, max_evals=4000):
    pts = sorted(set([a, b] + [t for t in breaks if a < t < b]))
    total, err = 0.0, 0.0
    coarse = sum(abs(_gl(f, pts[i], pts[i + 1])) for i in range(len(pts) - 1))
    floor = tol * coarse + 1e-300
    stack = [(pts[i], pts[i + 1], 0) for i in range(len(pts) - 1)]
    evals = 0
    capped = False
    while stack:
        lo, hi, d = stack.pop()
        whole = _gl(f, lo, hi)
        mid = (lo + hi) / 2
        halves = _gl(f, lo, mid) + _gl(f, mid, hi)
        e = abs(whole - halves)
        evals += 1
        if e <= floor * (hi - lo) / (b - a) or d >= 40:
            total += halves
            err += e
        elif evals > max_evals:
            total += halves
            err += e
            capped = True
        else:
            stack.append((lo, mid, d + 1))
            stack.append((mid, hi, d + 1))
    return total, err, capped


def speed(cv):
    """t -> |d/dt curve|"""
    if cv[0] == "P":
        ps = cv[1]
        n = len(ps) - 1
        if n == 0:
            return lambda t: 0.0
        if n == 1:
            L = math.hypot(ps[1][0] - ps[0][0], ps[1][1] - ps[0][1])
            return lambda t: L
        d = [((q[0] - p[0]) * n, (q[1] - p[1]) * n) for p, q in zip(ps, ps[1:])]
        if n == 2:
            return lambda t: math.hypot((1 - t) * d[0][0] + t * d[1][0], (1 - t) * d[0][1] + t * d[1][1])
        return lambda t: math.hypot(
            (1 - t) ** 2 * d[0][0] + 2 * (1 - t) * t * d[1][0] + t * t * d[2][0], (1 - t) ** 2 * d[0][1] + 2 * (1 - t) * t * d[1][1] + t * t * d[2][1]
        )
    _, c, u, v, th1, sw = cv
    return lambda t: abs(sw) * math.hypot(-u[0] * math.sin(th1 + sw * t) + v[0] * math.cos(th1 + sw * t), -u[1] * math.sin(th1 + sw * t) + v[1] * math.cos(th1 + sw * t))


def _minima(f2, lo=0.0, hi=1.0, n=200):
    ts = [lo + (hi - lo) * i / n for i in range(n + 1)]
    vs = [f2(t) for t in ts]
    out = []
    for i in range(1, n):
        if vs[i] <= vs[i - 1] and vs[i] <= vs[i + 1]:
            a, b = ts[i - 1], ts[i + 1]
            for _ in range(80):
                c = a + (b - a) * 0.381966
                d = a + (b - a) * 0.618034
                if f2(c) < f2(d):
                    b = d
                else:
                    a = c
            out.append((a + b) / 2)
    return out


def length(cv, lo=0.0, hi=1.0):
    """(value, error estimate, capped)"""
    f = speed(cv)
    if cv[0] == "P" and len(cv[1]) <= 2:
        return f(0.0) * (hi - lo), 0.0, False
    if cv[0] == "E":
        n = max(8, int(abs(cv[5]) / (math.pi / 8)) + 1)
        br = [lo + (hi - lo) * i / n for i in range(n + 1)]
    else:
        br = _minima(lambda t: f(t) ** 2, lo, hi)
    return integrate(f, lo, hi, breaks=br)
