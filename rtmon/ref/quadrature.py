"""Reference arc lengths by adaptive Gauss-Legendre quadrature of the speed function.

Curves use the representation of bboxref: ("P", [control points]) and ("E", c, u, v, th1, sweep).
length(cv) -> (value, error_estimate, capped); a capped or badly converged value makes the case inconclusive.
"""
import math


def _gl_nodes(n):
    xs, ws = [], []
    for i in range(1, n + 1):
        x = math.cos(math.pi * (i - 0.25) / (n + 0.5))
        for _ in range(100):
            p0, p1 = 1.0, x
            for k in range(2, n + 1):
                p0, p1 = p1, ((2 * k - 1) * x * p1 - (k - 1) * p0) / k
            dp = n * (x * p1 - p0) / (x * x - 1)
            dx = p1 / dp
            x -= dx
            if abs(dx) < 1e-16:
                break
        xs.append(x)
        ws.append(2 / ((1 - x * x) * dp * dp))
    return xs, ws


XS, WS = _gl_nodes(24)


def _gl(f, a, b):
    m, h = (a + b) / 2, (b - a) / 2
    return h * sum(w * f(m + h * x) for x, w in zip(XS, WS))


def integrate(f, a, b, breaks=(), tol=1e-13, max_evals=4000):
    pts = sorted(set([a, b] + [t for t in breaks if a < t < b]))
    total, err = 0.0, 0.0
    coarse = sum(abs(_gl(f, pts[i], pts[i + 1])) for i in range(len(pts) - 1))
    floor = tol * coarse + 1e-300
    stack = [(pts[i], pts[i + 1], 0) for i in range(len(pts) - 1)]
    evals = 0
    capped = False
    while stack:
        lo, hi, d = stack.pop()
        whole = _gl(f, lo, hi)
        mid = (lo + hi) / 2
        halves = _gl(f, lo, mid) + _gl(f, mid, hi)
        e = abs(whole - halves)
        evals += 1
        if e <= floor * (hi - lo) / (b - a) or d >= 40:
            total += halves
            err += e
        elif evals > max_evals:
            total += halves
            err += e
            capped = True
        else:
            stack.append((lo, mid, d + 1))
            stack.append((mid, hi, d + 1))
    return total, err, capped


def speed(cv):
    """t -> |d/dt curve|"""
    if cv[0] == "P":
        ps = cv[1]
        n = len(ps) - 1
        if n == 0:
            return lambda t: 0.0
        if n == 1:
            L = math.hypot(ps[1][0] - ps[0][0], ps[1][1] - ps[0][1])
            return lambda t: L
        d = [((q[0] - p[0]) * n, (q[1] - p[1]) * n) for p, q in zip(ps, ps[1:])]
        if n == 2:
            return lambda t: math.hypot((1 - t) * d[0][0] + t * d[1][0], (1 - t) * d[0][1] + t * d[1][1])
        return lambda t: math.hypot(
            (1 - t) ** 2 * d[0][0] + 2 * (1 - t) * t * d[1][0] + t * t * d[2][0], (1 - t) ** 2 * d[0][1] + 2 * (1 - t) * t * d[1][1] + t * t * d[2][1]
        )
    _, c, u, v, th1, sw = cv
    return lambda t: abs(sw) * math.hypot(-u[0] * math.sin(th1 + sw * t) + v[0] * math.cos(th1 + sw * t), -u[1] * math.sin(th1 + sw * t) + v[1] * math.cos(th1 + sw * t))


def _minima(f2, lo=0.0, hi=1.0, n=200):
    ts = [lo + (hi - lo) * i / n for i in range(n + 1)]
    vs = [f2(t) for t in ts]
    out = []
    for i in range(1, n):
        if vs[i] <= vs[i - 1] and vs[i] <= vs[i + 1]:
            a, b = ts[i - 1], ts[i + 1]
            for _ in range(80):
                c = a + (b - a) * 0.381966
                d = a + (b - a) * 0.618034
                if f2(c) < f2(d):
                    b = d
                else:
                    a = c
            out.append((a + b) / 2)
    return out


def _poly_roots_in(coef, lo, hi):
    """real roots in (lo, hi) of a polynomial of degree <= 3 given by ascending coefficients: monotone pieces + bisection"""
    c = list(coef) + [0.0] * (4 - len(coef))

    def p(t):
        return ((c[3] * t + c[2]) * t + c[1]) * t + c[0]
    # critical points of p: roots of 3 c3 t^2 + 2 c2 t + c1
    cuts = [lo, hi]
    qa, qb, qc = 3 * c[3], 2 * c[2], c[1]
    if qa != 0:
        disc = qb * qb - 4 * qa * qc
        if disc >= 0:
            r = math.sqrt(disc)
            q = -0.5 * (qb + (r if qb >= 0 else -r))
            for t in ([q / qa] + ([qc / q] if q != 0 else [])):
                if lo < t < hi:
                    cuts.append(t)
    elif qb != 0:
        t = -qc / qb
        if lo < t < hi:
            cuts.append(t)
    cuts = sorted(set(cuts))
    out = []
    for a_, b_ in zip(cuts, cuts[1:]):
        fa, fb = p(a_), p(b_)
        if fa == 0:
            out.append(a_)
        if fa * fb < 0:
            x, y = a_, b_
            for _ in range(200):
                m = (x + y) / 2
                fm = p(m)
                if fm == 0 or m == x or m == y:
                    break
                if (fm < 0) == (fa < 0):
                    x = m
                else:
                    y = m
            out.append((x + y) / 2)
    return [t for t in out if lo < t < hi]


def _speed_minima_bezier(ps, lo, hi):
    """stationary points of |B'(t)|^2 for a quadratic or cubic Bezier (exactly, also inside the first / last cell of any grid)"""
    n = len(ps) - 1
    d = [((q[0] - p[0]) * n, (q[1] - p[1]) * n) for p, q in zip(ps, ps[1:])]
    if n == 2:
        # B' = d0 + t (d1 - d0)
        ex, ey = d[1][0] - d[0][0], d[1][1] - d[0][1]
        den = ex * ex + ey * ey
        if den == 0:
            return []
        t = -(d[0][0] * ex + d[0][1] * ey) / den
        return [t] if lo < t < hi else []
    # cubic: B' = a + b t + c t^2 per axis
    out = []
    co = []
    for k in (0, 1):
        a_ = d[0][k]
        b_ = 2 * (d[1][k] - d[0][k])
        c_ = d[0][k] - 2 * d[1][k] + d[2][k]
        co.append((a_, b_, c_))
    # d/dt |B'|^2 / 2 = sum (a + b t + c t^2)(b + 2 c t) = ab + (b^2 + 2ac) t + 3bc t^2 + 2c^2 t^3
    poly = [0.0, 0.0, 0.0, 0.0]
    for a_, b_, c_ in co:
        poly[0] += a_ * b_
        poly[1] += b_ * b_ + 2 * a_ * c_
        poly[2] += 3 * b_ * c_
        poly[3] += 2 * c_ * c_
    return _poly_roots_in(poly, lo, hi)


def length(cv, lo=0.0, hi=1.0):
    """(value, error estimate, capped)"""
    f = speed(cv)
    if cv[0] == "P" and len(cv[1]) <= 2:
        return f(0.0) * (hi - lo), 0.0, False
    if cv[0] == "E":
        n = max(8, int(abs(cv[5]) / (math.pi / 8)) + 1)
        br = [lo + (hi - lo) * i / n for i in range(n + 1)]
    else:
        br = _minima(lambda t: f(t) ** 2, lo, hi) + _speed_minima_bezier(cv[1], lo, hi)
        # a near-cusp: refine around each stationary point geometrically, the speed behaves like |t - t0| there
        extra = []
        for t0 in br:
            for k in range(1, 12):
                h = (hi - lo) * 4.0 ** -k
                extra += [t0 - h, t0 + h]
        br = br + [t for t in extra if lo < t < hi]
    return integrate(f, lo, hi, breaks=br)
