"""SVG 2 section 8.2: the equivalent transform of an SVG viewport (independent of the library).

transform(e_x, e_y, e_w, e_h, vb, par) -> (a, b, c, d, e, f) in num.py convention, or None when rendering is disabled
(zero-sized viewBox or element).  vb = (min_x, min_y, width, height) or None (missing / incomplete -> identity).
par = (align, meet_or_slice) with align one of none, x{Min,Mid,Max}Y{Min,Mid,Max}; None -> xMidYMid meet.
"""
ALIGNS = ["none"] + ["x%sY%s" % (a, b) for a in ("Min", "Mid", "Max") for b in ("Min", "Mid", "Max")]


def transform(e_x, e_y, e_w, e_h, vb, par=None):
    if vb is None:
        return (1.0, 0.0, 0.0, 1.0, 0.0, 0.0)
    vx, vy, vw, vh = vb
    if vw == 0 or vh == 0 or e_w == 0 or e_h == 0:
        return None
    align, mos = par if par is not None else ("xMidYMid", "meet")
    if align is None:
        align = "xMidYMid"
    if mos is None:
        mos = "meet"
    sx = e_w / vw  # 1. scale-x = e-width / vb-width
    sy = e_h / vh
    if align != "none" and mos == "meet":
        sx = sy = min(sx, sy)
    elif align != "none" and mos == "slice":
        sx = sy = max(sx, sy)
    tx = e_x - vx * sx
    ty = e_y - vy * sy
    if "xMid" in align:
        tx += (e_w - vw * sx) / 2.0
    if "xMax" in align:
        tx += e_w - vw * sx
    if "YMid" in align:
        ty += (e_h - vh * sy) / 2.0
    if "YMax" in align:
        ty += e_h - vh * sy
    return (sx, 0.0, 0.0, sy, tx, ty)
