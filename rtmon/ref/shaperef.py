"""SVG 2 chapter 10: the equivalent path of each basic shape (independent of the library).

equivalent(kind, geom) -> list of (letter, curve) with curves in the bboxref format, or [] when the shape is not
rendered.  `geom` holds plain numbers in user units: lengths and percentages are resolved by the caller
(resolve_rect_radii does the rect's auto / percentage / clamp rules).
"""
import math


def resolve_rect_radii(width, height, rx, ry):
    """rx, ry: None (auto), a number, or ("%", p).  SVG 2 10.2: a percentage refers to the rect's own width (rx) or
    height (ry); a negative value is invalid and treated as auto; auto takes the other radius; both are clamped to
    half the side; if either ends up zero the corners are square."""
    def res(v, ref):
        if v is None:
            return None
        if isinstance(v, (tuple, list)):
            return v[1] * ref / 100.0
        return float(v)
    rx, ry = res(rx, width), res(ry, height)
    if rx is not None and rx < 0:
        rx = None
    if ry is not None and ry < 0:
        ry = None
    if rx is None and ry is None:
        return 0.0, 0.0
    if rx is None:
        rx = ry
    if ry is None:
        ry = rx
    rx, ry = min(rx, width / 2.0), min(ry, height / 2.0)
    if rx == 0 or ry == 0:
        return 0.0, 0.0
    return rx, ry


def _line(a, b):
    return ("P", [a, b])


def _quarter(c, rx, ry, th1):
    """quarter of the ellipse about c from angle th1, positive-angle direction (sweep flag 1)"""
    return ("E", c, (rx, 0.0), (0.0, ry), th1, math.pi / 2)


def equivalent(kind, g):
    if kind == "rect":
        x, y, w, h = g["x"], g["y"], g["width"], g["height"]
        if not (w > 0 and h > 0):
            return []
        rx, ry = g.get("rx", 0.0), g.get("ry", 0.0)
        if rx == 0 or ry == 0:
            return [("M", ("P", [(x, y)])), ("L", _line((x, y), (x + w, y))), ("L", _line((x + w, y), (x + w, y + h))),
                    ("L", _line((x + w, y + h), (x, y + h))), ("Z", _line((x, y + h), (x, y)))]
        hp = math.pi / 2
        return [
            ("M", ("P", [(x + rx, y)])),
            ("L", _line((x + rx, y), (x + w - rx, y))),
            ("A", _quarter((x + w - rx, y + ry), rx, ry, -hp)),
            ("L", _line((x + w, y + ry), (x + w, y + h - ry))),
            ("A", _quarter((x + w - rx, y + h - ry), rx, ry, 0.0)),
            ("L", _line((x + w - rx, y + h), (x + rx, y + h))),
            ("A", _quarter((x + rx, y + h - ry), rx, ry, hp)),
            ("L", _line((x, y + h - ry), (x, y + ry))),
            ("A", _quarter((x + rx, y + ry), rx, ry, 2 * hp)),
            ("Z", _line((x + rx, y), (x + rx, y))),
        ]
    if kind in ("circle", "ellipse"):
        cx, cy = g["cx"], g["cy"]
        rx = g["r"] if kind == "circle" else g["rx"]
        ry = g["r"] if kind == "circle" else g["ry"]
        if not (rx > 0 and ry > 0):
            return []
        c = (cx, cy)
        hp = math.pi / 2
        return [("M", ("P", [(cx + rx, cy)])), ("A", _quarter(c, rx, ry, 0.0)), ("A", _quarter(c, rx, ry, hp)), ("A", _quarter(c, rx, ry, 2 * hp)),
                ("A", _quarter(c, rx, ry, 3 * hp)), ("Z", _line((cx + rx, cy), (cx + rx, cy)))]
    if kind == "line":
        a, b = (g["x1"], g["y1"]), (g["x2"], g["y2"])
        return [("M", ("P", [a])), ("L", _line(a, b))]
    pts = [tuple(p) for p in g["points"]]
    if not pts:
        return []
    out = [("M", ("P", [pts[0]]))]
    for a, b in zip(pts, pts[1:]):
        out.append(("L", _line(a, b)))
    if kind == "polygon":
        out.append(("Z", _line(pts[-1], pts[0])))
    return out
