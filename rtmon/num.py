"""Numeric policy - the single place where tolerances live (DESIGN.md section 3).

Every comparison returns the *ratio* deviation/bound so that callers can record
the largest ratio seen (evidence shows the margin) and decide violation with
ratio > 1.
"""
import math

EPS = 2.0 ** -52


def ulp(x):
    return math.ulp(abs(x)) if x == x and abs(x) != math.inf else math.inf


def mag(*vals, floor=1e-3):
    m = floor
    for v in vals:
        if v is None:
            continue
        if isinstance(v, (tuple, list)):
            for w in v:
                if w is not None and abs(w) > m:
                    m = abs(w)
        elif abs(v) > m:
            m = abs(v)
    return m


def dist(p, q):
    return math.hypot(p[0] - q[0], p[1] - q[1])


def finite(*vals):
    for v in vals:
        if isinstance(v, (tuple, list)):
            if not finite(*v):
                return False
        elif v is None or not isinstance(v, (int, float)) or v != v or abs(v) == math.inf:
            return False
    return True


# --- named bounds -----------------------------------------------------------

def b_exact(S):
    """same arithmetic in the same order"""
    return 64 * EPS * S


def b_affine(S, cond=1.0):
    """one affine map of 2-norm condition `cond`"""
    return 1e-12 * max(cond, 1.0) * S


def b_fmt12(S, nseg=0):
    """through the 12-significant-digit writer; relative output accumulates"""
    return 2e-11 * S + nseg * 1e-11 * S


def b_fmt6(S):
    return 1e-5 * (1.0 + S)


def b_arcsolve(size, S):
    """endpoint -> centre conversion"""
    return 1e-6 * size + 1e-9 * S


def b_length(L, e, S=0.0):
    return max(e, 1e-9 * abs(L)) + 1e-12 * S


class Margins:
    """largest deviation/bound ratio per comparison kind"""

    def __init__(self):
        self.m = {}

    def see(self, kind, ratio):
        """record the margin of *compliant* comparisons; ratios > 1 are violations and reported as such"""
        if ratio != ratio:
            ratio = math.inf
        if ratio <= 1.0 and ratio > self.m.get(kind, 0.0):
            self.m[kind] = ratio
        return ratio

    def merge(self, other):
        for k, v in other.items():
            if v > self.m.get(k, 0.0):
                self.m[k] = v


# --- 2x3 matrices as tuples (a, b, c, d, e, f): x' = a x + c y + e ----------

IDENT = (1.0, 0.0, 0.0, 1.0, 0.0, 0.0)


def m_apply(m, p):
    a, b, c, d, e, f = m
    return (a * p[0] + c * p[1] + e, b * p[0] + d * p[1] + f)


def m_mul(first, then):
    """matrix of 'apply first, then then' (the library's first * then)"""
    a1, b1, c1, d1, e1, f1 = first
    a2, b2, c2, d2, e2, f2 = then
    return (
        a2 * a1 + c2 * b1,
        b2 * a1 + d2 * b1,
        a2 * c1 + c2 * d1,
        b2 * c1 + d2 * d1,
        a2 * e1 + c2 * f1 + e2,
        b2 * e1 + d2 * f1 + f2,
    )


def m_det(m):
    return m[0] * m[3] - m[1] * m[2]


def m_inv(m):
    a, b, c, d, e, f = m
    det = a * d - b * c
    ia, ib, ic, id_ = d / det, -b / det, -c / det, a / det
    return (ia, ib, ic, id_, -(ia * e + ic * f), -(ib * e + id_ * f))


def m_cond(m):
    """2-norm condition number of the linear part"""
    a, b, c, d = m[0], m[1], m[2], m[3]
    s1 = a * a + b * b + c * c + d * d
    det = abs(a * d - b * c)
    disc = max(s1 * s1 - 4 * det * det, 0.0)
    big = math.sqrt((s1 + math.sqrt(disc)) / 2.0)
    if big == 0:
        return math.inf
    small = det / big
    if small == 0:
        return math.inf
    return big / small


def m_norm(m):
    a, b, c, d = m[0], m[1], m[2], m[3]
    s1 = a * a + b * b + c * c + d * d
    det = abs(a * d - b * c)
    disc = max(s1 * s1 - 4 * det * det, 0.0)
    return math.sqrt((s1 + math.sqrt(disc)) / 2.0)


def m_of(M):
    """library Matrix -> tuple"""
    return (float(M.a), float(M.b), float(M.c), float(M.d), float(M.e), float(M.f))
