"""Import the code under test from the *current working tree*.

The library is pure Python, so "rebuilding" is importing.  The directory is
/repo unless RTMON_TARGET names another checkout (used only by the mutant
self-tests).  Importing refuses to continue when the module that was loaded
does not live below that directory, so a stale installed copy can never be
what is monitored.
"""
import importlib
import os
import sys

sys.dont_write_bytecode = True

_S = None


def target_dir():
    return os.path.realpath(os.environ.get("RTMON_TARGET", "/repo"))


def load():
    global _S
    if _S is not None:
        return _S
    d = target_dir()
    if d in sys.path:
        sys.path.remove(d)
    sys.path.insert(0, d)
    for name in list(sys.modules):
        if name == "svgelements" or name.startswith("svgelements."):
            del sys.modules[name]
    mod = importlib.import_module("svgelements.svgelements")
    f = os.path.realpath(mod.__file__)
    if not f.startswith(d + os.sep):
        raise RuntimeError("svgelements imported from %s, not from %s" % (f, d))
    _S = mod
    return mod


def optional_modules():
    out = {}
    for name in ("numpy", "scipy", "PIL"):
        try:
            importlib.import_module(name)
            out[name] = True
        except Exception:
            out[name] = False
    return out
