"""Driver: shards, watchdog, verdict, evidence, known findings, replay."""
import array
import importlib
import json
import os
import re
import shutil
import subprocess
import sys
import tempfile
import time

HERE = os.path.dirname(os.path.abspath(__file__))
ROOT = os.path.dirname(HERE)
PY = "/venv/bin/python" if os.path.exists("/venv/bin/python") else sys.executable
NPROC = 16

LEVEL = "exploration"


def slug(s, n=80):
    return re.sub(r"[^A-Za-z0-9_.-]+", "_", s)[:n].strip("_") or "x"


def load_known(prop_id):
    path = os.path.join(ROOT, "known_findings.json")
    known, fixed = {}, {}
    if os.path.exists(path):
        with open(path) as f:
            data = json.load(f)
        for ent in data.get("findings", []):
            if ent.get("property") != prop_id:
                continue
            if ent.get("status") == "known":
                known[ent["key"]] = ent
            elif ent.get("status") == "fixed":
                fixed[ent["key"]] = ent
    return known, fixed


def merge(results):
    tot = {
        "evaluations": 0,
        "monitors": {},
        "events": {},
        "strata": {},
        "notes": {},
        "inconclusive": {},
        "margins": {},
        "max_values": {},
        "violations": {},
        "samples": {},
        "anchor": {},
        "exhaustive": {},
        "truncated": [],
    }
    for r in results:
        tot["evaluations"] += r["evaluations"]
        for name in ("monitors", "events", "strata", "notes", "inconclusive"):
            for k, v in r[name].items():
                tot[name][k] = tot[name].get(k, 0) + v
        for name in ("margins", "max_values"):
            for k, v in r[name].items():
                if v > tot[name].get(k, float("-inf")):
                    tot[name][k] = v
        for k, rec in r["violations"].items():
            t = tot["violations"].setdefault(k, {"count": 0, "witnesses": []})
            t["count"] += rec["count"]
            for w in rec["witnesses"]:
                if len(t["witnesses"]) < 3:
                    t["witnesses"].append(w)
        for k, v in r["samples"].items():
            tot["samples"].setdefault(k, v)
        for q, d in r["anchor_coverage"].items():
            a = tot["anchor"].setdefault(q, {"hit": set(), "total": set(), "unresolved": False})
            a["hit"].update(d["hit"])
            a["total"].update(d["total"])
            if d.get("unresolved"):
                a["unresolved"] = True
        for k, v in (r.get("exhaustive") or {}).items():
            tot["exhaustive"][k] = tot["exhaustive"].get(k, 0) + v
        if r.get("truncated_at") is not None:
            tot["truncated"].append(r["truncated_at"])
    return tot


def run_check(prop_id, tier, seed, out=sys.stdout):
    t0 = time.time()
    mod = importlib.import_module("rtmon.props.%s" % prop_id.lower())
    budget = mod.BUDGET[tier]
    nshards = max(1, min(NPROC, budget // max(1, getattr(mod, "MIN_PER_SHARD", 20))))
    tmp = tempfile.mkdtemp(prefix="rtmon-%s-" % prop_id)
    env = dict(os.environ)
    env["PYTHONDONTWRITEBYTECODE"] = "1"
    env["PYTHONHASHSEED"] = "0"
    env["PYTHONPATH"] = ROOT
    env["SVGELEMENTS_VERIF"] = "1"
    env.setdefault("RTMON_TARGET", "/repo")
    cap = mod.TIME_CAP[tier] if hasattr(mod, "TIME_CAP") else (90 if tier == "quick" else 1500)
    watchdog = cap * 4 + 120
    procs = []
    inconclusive = []
    try:
        for i in range(nshards):
            outfile = os.path.join(tmp, "shard%d.json" % i)
            cmd = [PY, "-X", "faulthandler", "-m", "rtmon.worker", prop_id, tier, str(seed), str(i), str(nshards), outfile]
            p = subprocess.Popen(cmd, cwd=ROOT, env=env, stdout=subprocess.PIPE, stderr=subprocess.STDOUT)
            procs.append((i, p, outfile))
        results = []
        digests = set()
        for i, p, outfile in procs:
            left = max(5.0, watchdog - (time.time() - t0))
            try:
                so, _ = p.communicate(timeout=left)
            except subprocess.TimeoutExpired:
                p.kill()
                so, _ = p.communicate()
                inconclusive.append("shard %d: wall-clock watchdog (%ds) fired" % (i, watchdog))
                continue
            if p.returncode != 0 or not os.path.exists(outfile):
                tail = (so or b"").decode("utf-8", "replace")[-1500:]
                inconclusive.append("shard %d: worker exited %s: %s" % (i, p.returncode, tail))
                continue
            with open(outfile) as f:
                results.append(json.load(f))
            a = array.array("Q")
            with open(outfile + ".digests", "rb") as f:
                a.frombytes(f.read())
            digests.update(a)
    finally:
        for _, p, _ in procs:
            if p.poll() is None:
                p.kill()
        shutil.rmtree(tmp, ignore_errors=True)

    tot = merge(results) if results else None
    known, fixed = load_known(prop_id)
    exit_code = 0
    lines = []
    viol_new = {}
    known_seen = {}
    if tot is None:
        inconclusive.append("no shard produced a result")
    else:
        # verdict relevant completeness checks
        minima = mod.strata_minimum(tier) if hasattr(mod, "strata_minimum") else {}
        for st, need in minima.items():
            got = tot["strata"].get(st, 0)
            if got < need:
                inconclusive.append("stratum %s: %d cases < minimum %d" % (st, got, need))
        for m in getattr(mod, "REQUIRED_MONITORS", []):
            if tot["monitors"].get(m, 0) == 0:
                inconclusive.append("monitor %s was never evaluated" % m)
        for q, a in tot["anchor"].items():
            if a["unresolved"]:
                tot["notes"]["anchor-unresolved/" + q] = 1
            elif q in getattr(mod, "REQUIRED_ANCHORS", getattr(mod, "ANCHORS", [])) and not a["hit"] and a["total"]:
                inconclusive.append("anchored function %s was never executed" % q)
        for k, v in tot["inconclusive"].items():
            if k.startswith("generator-error/"):
                inconclusive.append("%s x%d" % (k, v))
        for key, rec in sorted(tot["violations"].items()):
            if key in known:
                known_seen[key] = rec["count"]
                lines.append("KNOWN-FINDING: property=%s key=%s count=%d %s" % (prop_id, key, rec["count"], known[key].get("what", "")))
            else:
                viol_new[key] = rec

    rdir = os.path.join(ROOT, "replays", prop_id)
    for key, rec in viol_new.items():
        os.makedirs(rdir, exist_ok=True)
        w = rec["witnesses"][0] if rec["witnesses"] else {}
        path = os.path.join(rdir, "viol-%s-s%d.json" % (slug(key), seed))
        with open(path, "w") as f:
            json.dump(
                {
                    "property": prop_id,
                    "key": key,
                    "seed": seed,
                    "tier": tier,
                    "count": rec["count"],
                    "case": w.get("shrunk_case", w.get("case")),
                    "original_case": w.get("case"),
                    "index": w.get("index"),
                    "detail": w.get("detail"),
                    "data": w.get("data"),
                    "was_fixed_entry": key in fixed,
                },
                f,
                indent=1,
            )
        rel = os.path.relpath(path, ROOT)
        lines.append("VIOLATION property=%s replay=%s" % (prop_id, rel))
        lines.append("  key=%s count=%d %s" % (key, rec["count"], (w.get("detail") or "")[:300].replace("\n", " ")))
        if key in fixed:
            lines.append("  (this key is recorded as fixed by %s - the defect has returned)" % fixed[key].get("commit"))
        exit_code = 1

    if inconclusive:
        if exit_code == 0:
            exit_code = 2
        for r in inconclusive:
            lines.append("INCONCLUSIVE property=%s reason=%s" % (prop_id, r[:1500].replace("\n", " | ")))

    wall = time.time() - t0
    if os.environ.get("RTMON_NO_EVIDENCE") != "1":
        write_evidence(
            prop_id, tier, seed, mod, tot, digests if tot else set(), known_seen, viol_new, inconclusive, wall, nshards)
    for ln in lines:
        print(ln, file=out)
    if tot is not None:
        merr = {k: v for k, v in tot["notes"].items() if k.startswith("monitor-error/")}
        if merr:
            print("WARNING monitor errors: %s" % json.dumps(merr)[:600], file=out)
        print(
            "%s %s seed=%d: %s; cases=%d distinct=%d monitors=%d evals; known=%d new=%d; %.1fs"
            % (
                prop_id,
                tier,
                seed,
                {0: "HELD on what was observed", 1: "VIOLATED", 2: "INCONCLUSIVE"}[exit_code],
                tot["evaluations"],
                len(digests),
                sum(tot["monitors"].values()),
                len(known_seen),
                len(viol_new),
                wall,
            ),
            file=out,
        )
    return exit_code


def write_evidence(prop_id, tier, seed, mod, tot, digests, known_seen, viol_new, inconclusive, wall, nshards):
    from . import target

    os.makedirs(os.path.join(ROOT, "evidence"), exist_ok=True)
    path = os.path.join(ROOT, "evidence", "%s.json" % prop_id)
    if tot is None:
        ev = {
            "property_id": prop_id,
            "tier": tier,
            "seed": seed,
            "level": LEVEL,
            "coverage": {"evaluations": 0, "distinct_nontrivial": 0, "rule": getattr(mod, "RULE", ""), "samples": [], "inconclusive": inconclusive},
            "wall_s": wall,
            "violations": 0,
        }
        with open(path, "w") as f:
            json.dump(ev, f, indent=1)
        return
    anchor = {}
    for q, a in sorted(tot["anchor"].items()):
        missing = sorted(a["total"] - a["hit"])
        anchor[q] = {
            "lines_hit": len(a["hit"] & a["total"]),
            "lines_total": len(a["total"]),
            "never_executed_lines": missing[:60],
        }
        if a["unresolved"]:
            anchor[q]["unresolved"] = True
    minima = mod.strata_minimum(tier) if hasattr(mod, "strata_minimum") else {}
    samples = list(tot["samples"].values())[:16]
    cov = {
        "evaluations": tot["evaluations"],
        "distinct_nontrivial": len(digests),
        "rule": getattr(mod, "RULE", ""),
        "samples": samples,
        "strata": {k: {"cases": v, "minimum": minima.get(k, 0)} for k, v in sorted(tot["strata"].items())},
        "monitors": {k: {"evaluations": v, "events": tot["events"].get(k, 0)} for k, v in sorted(tot["monitors"].items())},
        "largest_deviation_over_bound": {k: float("%.3g" % v) for k, v in sorted(tot["margins"].items())},
        "max_values": {k: (float("%.6g" % v) if isinstance(v, float) else v) for k, v in sorted(tot["max_values"].items())},
        "anchor_coverage": anchor,
        "known_findings_seen": known_seen,
        "unlisted_violation_keys": {k: v["count"] for k, v in viol_new.items()},
        "inconclusive": inconclusive + ["%s x%d" % kv for kv in sorted(tot["inconclusive"].items())],
        "observations": {k: v for k, v in sorted(tot["notes"].items())},
        "exhaustive_subspaces": tot["exhaustive"],
        "exhaustive": False,
        "shards": nshards,
        "budget_truncated": bool(tot["truncated"]),
        "optional_modules_importable": target.optional_modules(),
        "target": os.environ.get("RTMON_TARGET", "/repo"),
    }
    ev = {
        "property_id": prop_id,
        "tier": tier,
        "seed": seed,
        "level": LEVEL,
        "coverage": cov,
        "assumptions": list(getattr(mod, "ASSUMPTIONS", []))
        + [
            "CPython float arithmetic and the math module",
            "the reference model in rtmon/ref used by this check (cross-checked against spec examples by ./check --self-check)",
            "a finite stratified sample stands for the unbounded input family: nothing is claimed for inputs never generated",
        ],
        "wall_s": round(wall, 2),
        "violations": sum(v["count"] for v in viol_new.values()),
    }
    with open(path, "w") as f:
        json.dump(ev, f, indent=1)
    if tier == "thorough":
        # the per-run file above is overwritten by the next (quick) run: keep the record of the deepest exploration beside it
        os.makedirs(os.path.join(ROOT, "evidence", "thorough"), exist_ok=True)
        with open(os.path.join(ROOT, "evidence", "thorough", "%s.json" % prop_id), "w") as f:
            json.dump(ev, f, indent=1)


def replay(prop_id, path, out=sys.stdout):
    from . import target
    from .ctx import Ctx
    from .worker import run_one

    with open(path) as f:
        rec = json.load(f)
    S = target.load()
    mod = importlib.import_module("rtmon.props.%s" % prop_id.lower())
    ctx = Ctx(prop_id, rec.get("tier", "quick"), rec.get("seed", 0))
    if hasattr(mod, "setup"):
        mod.setup(S, ctx, rec.get("tier", "quick"))
    keys = run_one(mod, S, ctx, rec.get("index", -1), rec["case"])
    known, _ = load_known(prop_id)
    want = rec.get("key")
    print("replay %s: keys raised: %s" % (path, keys or "none"), file=out)
    for k in keys:
        for w in ctx.violations[k]["witnesses"][:1]:
            print("  %s: %s" % (k, w["detail"][:600]), file=out)
    if want in keys or (want is None and keys):
        if want in known:
            print("KNOWN-FINDING: property=%s key=%s reproduced" % (prop_id, want), file=out)
            return 0
        print("VIOLATION property=%s replay=%s" % (prop_id, path), file=out)
        return 1
    unl = [k for k in keys if k not in known]
    if unl:
        print("VIOLATION property=%s replay=%s" % (prop_id, path), file=out)
        return 1
    print("not reproduced", file=out)
    return 0
