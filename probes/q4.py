import random, math, sys
from svgelements import *
R = random.Random(int(sys.argv[1]) if len(sys.argv)>1 else 0)
def mm(A,B):  # 3x3 as (a,b,c,d,e,f) column-vector convention: p' = A p ; A*B means apply B first
    a1,b1,c1,d1,e1,f1=A; a2,b2,c2,d2,e2,f2=B
    return (a1*a2+c1*b2, b1*a2+d1*b2, a1*c2+c1*d2, b1*c2+d1*d2, a1*e2+c1*f2+e1, b1*e2+d1*f2+f1)
I=(1,0,0,1,0,0)
def T(x,y): return (1,0,0,1,x,y)
def Sc(x,y): return (x,0,0,y,0,0)
def Rot(a): return (math.cos(a),math.sin(a),-math.sin(a),math.cos(a),0,0)
def Sk(a,b): return (1,math.tan(b),math.tan(a),1,0,0)
def num(small=False):
    k=R.random()
    if k<0.1: return 0.0
    if k<0.5: return float(R.randint(-9,9))
    return round(R.uniform(-50,50), R.randint(0,4)) if not small else round(R.uniform(-3,3),3)
ANG=[('deg',math.pi/180),('grad',math.pi/200),('rad',1.0),('turn',2*math.pi),('',math.pi/180)]
LEN_=[('',1.0),('px',1.0),('pt',4/3),('pc',16.0)]
def angle():
    u,f=R.choice(ANG)
    v = R.choice([0,30,45,90,-90,180,270,360,-400, round(R.uniform(-720,720),3)])
    if u=='rad': v=round(math.radians(v),6)
    if u=='turn': v=round(v/360,6)
    if u=='grad': v=round(v/0.9,4)
    if abs(math.cos(v*f))<1e-3: v+=7*(1 if u in ('deg','','grad') else 0.1)
    return repr(float(v))+u, v*f
def length():
    u,f=R.choice(LEN_); v=num(); return repr(v)+u, v*f
def fn():
    k=R.choice(['matrix','translate','translate1','translatex','translatey','scale','scale1','scalex','scaley','rotate','rotatec','skew','skewx','skewy'])
    if k=='matrix':
        v=[num(True) for _ in range(6)]; return 'matrix',[repr(x) for x in v],tuple(v)
    if k=='translate': a,x=length(); b,y=length(); return 'translate',[a,b],T(x,y)
    if k=='translate1': a,x=length(); return 'translate',[a],T(x,0)
    if k=='translatex': a,x=length(); return 'translateX',[a],T(x,0)
    if k=='translatey': a,x=length(); return 'translateY',[a],T(0,x)
    if k=='scale': x,y=num(True),num(True); return 'scale',[repr(x),repr(y)],Sc(x,y)
    if k=='scale1': x=num(True); return 'scale',[repr(x)],Sc(x,x)
    if k=='scalex': x=num(True); return 'scaleX',[repr(x)],Sc(x,1)
    if k=='scaley': x=num(True); return 'scaleY',[repr(x)],Sc(1,x)
    if k=='rotate': s,a=angle(); return 'rotate',[s],Rot(a)
    if k=='rotatec':
        s,a=angle(); sx,x=length(); sy,y=length(); return 'rotate',[s,sx,sy], mm(mm(T(x,y),Rot(a)),T(-x,-y))
    if k=='skew':
        s,a=angle(); s2,b=angle(); return 'skew',[s,s2],Sk(a,b)
    if k=='skewx': s,a=angle(); return 'skewX',[s],Sk(a,0)
    if k=='skewy': s,a=angle(); return 'skewY',[s],Sk(0,a)
def rcase(s): return ''.join(c.upper() if R.random()<.3 else c.lower() for c in s)
def spell(fs):
    out=[]
    for name,args,_ in fs:
        s=rcase(name)+R.choice(['',' '])+'('+R.choice(['',' '])
        for i,a in enumerate(args):
            if i: s+=R.choice([',',' ',' , ','\t',', ']) if not (a[0]=='-' and R.random()<.3) else ''
            s+=a
        s+=R.choice(['',' '])+')'
        out.append(s)
    return R.choice([' ',',',' , ','']).join(out) if R.random()<.7 else ' '.join(out)
from collections import Counter
bad=Counter(); n=0
for it in range(int(sys.argv[2]) if len(sys.argv)>2 else 20000):
    fs=[fn() for _ in range(R.randint(0,6))]
    text=spell(fs)
    ref=I
    for _,_,m in fs: ref=mm(ref,m)
    n+=1
    try:
        M=Matrix(text)
        got=(M.a,M.b,M.c,M.d,M.e,M.f)
    except Exception as e:
        bad[('EXC',type(e).__name__)]+=1
        if bad[('EXC',type(e).__name__)]<3: print('EXC',e,repr(text))
        continue
    scale=max(1,max(abs(x) for x in ref))
    if any(abs(g-r)>1e-9*scale for g,r in zip(got,ref)):
        key=tuple(sorted(set(f[0].lower() for f in fs)))
        bad['mismatch']+=1
        if bad['mismatch']<=6: print('MISMATCH',repr(text),got,ref)
print(n,dict(bad))
