from svgelements import *
import io
NS='xmlns="http://www.w3.org/2000/svg" xmlns:xlink="http://www.w3.org/1999/xlink"'
def doc(body, **kw):
    return SVG.parse(io.StringIO('<svg %s width="100" height="100">%s</svg>' % (NS, body)), **kw)
def t(label, body, **kw):
    try:
        d = doc(body, **kw)
        print(label, '->', [repr(e) for e in d.elements() if isinstance(e, Shape)])
    except BaseException as e:
        print(label, 'EXC', type(e).__name__, str(e)[:80])
ok = '<rect id="ok" x="1" y="1" width="5" height="5"/>'
t('bad path h', ok + '<path d="M0,0 h"/>' + ok)
t('bad path nomove', ok + '<path d="h 5"/>' + ok)
t('bad transform matrix', ok + '<rect transform="matrix(1,2)" width="5" height="5"/>' + ok)
t('bad transform rotate', ok + '<rect transform="rotate(abc)" width="5" height="5"/>' + ok)
t('bad transform skewx', ok + '<rect transform="skewX(q)" width="5" height="5"/>' + ok)
t('bad transform g', ok + '<g transform="matrix(1)"><rect width="5" height="5"/></g>' + ok)
t('bad transform scale', ok + '<rect transform="scale(1,2,3)" width="5" height="5"/>' + ok)
t('bad transform translate', ok + '<rect transform="translate(1,2,3)" width="5" height="5"/>' + ok)
t('bad color', ok + '<rect fill="rgb(1.5,2,3)" width="5" height="5"/>' + ok)
t('bad color2', ok + '<rect fill="#12" stroke="bogus" width="5" height="5"/>' + ok)
t('bad length', ok + '<rect width="abc" height="5"/><circle r="-5"/><rect width="-5" height="5"/>' + ok)
t('bad points', ok + '<polyline points="1,2,3"/><polygon points="a b c"/>' + ok)
t('bad viewbox nested', ok + '<svg viewBox="a b c d"><rect width="5" height="5"/></svg>' + ok)
t('zero viewbox nested', ok + '<svg viewBox="0 0 0 0" width="10" height="10"><rect width="5" height="5"/></svg>' + ok)
t('dangling use', ok + '<use xlink:href="#nope"/><use href=""/><use/>' + ok)
t('self use', ok + '<use id="u" xlink:href="#u"/>' + ok)
t('ancestor use', ok + '<g id="g1"><use xlink:href="#g1"/></g>' + ok)
t('mutual use', ok + '<defs><g id="a"><use xlink:href="#b"/></g><g id="b"><use xlink:href="#a"/></g></defs><use xlink:href="#a"/>' + ok)
t('bad stroke width', ok + '<rect stroke="red" stroke-width="abc" width="5" height="5"/>' + ok)
t('bad opacity', ok + '<rect fill-opacity="abc" stroke-opacity="x" stroke="red" width="5" height="5"/>' + ok)
t('bad par', ok + '<svg viewBox="0 0 10 10" width="10" height="20" preserveAspectRatio="bogus nonsense"><rect width="5" height="5"/></svg>' + ok)
t('bad use xy', ok + '<defs><rect id="r" width="5" height="5"/></defs><use xlink:href="#r" x="abc" y="1e"/>' + ok)
t('bad style', ok + '<rect style="fill:;;:red;stroke" width="5" height="5"/>' + ok)
t('bad circle', ok + '<circle cx="abc" r="5"/><ellipse rx="5" ry="x"/><line x1="a" x2="5"/>' + ok)
t('bad arc flag', ok + '<path d="M0,0 A 5 5 0 2 1 5 5"/>' + ok)
t('bad rotate units', ok + '<rect transform="rotate(5furlongs)" width="5" height="5"/>' + ok)
t('image bad', ok + '<image width="a" xlink:href="data:image/png;base64,@@@"/>' + ok)
t('bad display', ok + '<rect display="" width="5" height="5"/>' + ok)
t('bad transform empty', ok + '<rect transform="" width="5" height="5"/><rect transform="rotate" width="5" height="5"/><rect transform="rotate(" width="5" height="5"/>' + ok)
t('mm transform mix', ok + '<rect transform="rotate(30) translate(1in, 5)" width="5" height="5"/>' + ok)
t('pct stroke', ok + '<rect stroke="red" stroke-width="5%" width="5" height="5"/>' + ok)
t('em rect', ok + '<rect width="5em" height="5"/>' + ok)
