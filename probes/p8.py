from svgelements import *
from math import *
import random, time
random.seed(2)
# Gauss-Legendre reference
def gl_nodes(n):
    # Newton on Legendre
    xs=[];ws=[]
    for i in range(1,n+1):
        x = cos(pi*(i-0.25)/(n+0.5))
        for _ in range(100):
            p0=1.0;p1=x
            for k in range(2,n+1):
                p0,p1 = p1, ((2*k-1)*x*p1-(k-1)*p0)/k
            dp = n*(x*p1-p0)/(x*x-1)
            dx = p1/dp; x-=dx
            if abs(dx)<1e-15: break
        xs.append(x); ws.append(2/((1-x*x)*dp*dp))
    return xs,ws
XS,WS = gl_nodes(32)
def quad(f,a,b,depth=0):
    def gl(a,b):
        m=(a+b)/2;h=(b-a)/2
        return h*sum(w*f(m+h*x) for x,w in zip(XS,WS))
    whole=gl(a,b); m=(a+b)/2
    halves=gl(a,m)+gl(m,b)
    if abs(whole-halves) < 1e-13*max(1,abs(halves)) or depth>12: return halves
    return quad(f,a,m,depth+1)+quad(f,m,b,depth+1)
def speed_q(s):
    p0,p1,p2 = complex(*s.start),complex(*s.control),complex(*s.end)
    return lambda t: abs(2*(1-t)*(p1-p0)+2*t*(p2-p1))
def speed_c(s):
    p0,p1,p2,p3 = complex(*s.start),complex(*s.control1),complex(*s.control2),complex(*s.end)
    return lambda t: abs(3*(1-t)**2*(p1-p0)+6*(1-t)*t*(p2-p1)+3*t*t*(p3-p2))
def rc(scale=100):
    return random.choice([0.0, random.uniform(-scale, scale), float(round(random.uniform(-scale,scale)))])
worst={}
for it in range(400):
    kind=random.choice('QQC')
    if kind=='Q':
        mode=random.choice(['gen','collinear','coincident','cusp'])
        a=(rc(),rc()); c=(rc(),rc()); b=(rc(),rc())
        if mode=='collinear':
            k=random.uniform(-2,3); c=(a[0]+k*(b[0]-a[0]), a[1]+k*(b[1]-a[1]))
        if mode=='coincident': c=random.choice([a,b])
        if mode=='cusp': b=a
        s=QuadraticBezier(a,c,b); ref=quad(speed_q(s),0,1)
    else:
        mode='gen'
        s=CubicBezier((rc(),rc()),(rc(),rc()),(rc(),rc()),(rc(),rc())); ref=quad(speed_c(s),0,1)
    t0=time.time()
    try:
        L=s.length(error=1e-6)
    except Exception as e:
        print('EXC',mode,repr(s),type(e).__name__,e); continue
    dt=time.time()-t0
    err=abs(L-ref)
    key=(kind,mode)
    if err>worst.get(key,(0,))[0]: worst[key]=(err,ref,L,repr(s),dt)
for k,v in worst.items(): print(k,v)
# arcs
for it in range(10):
    a = Arc(Point(rc(),rc()), abs(rc())+1, abs(rc())+1, random.uniform(-180,180), random.randint(0,1), random.randint(0,1), Point(rc(),rc()))
    t0=time.time(); L=a.length(error=1e-6); dt=time.time()-t0
    rx,ry=a.rx,a.ry; st=a.get_start_t()
    ref=quad(lambda t: hypot(rx*sin(t), ry*cos(t)), min(st,st+a.sweep), max(st,st+a.sweep))
    print('arc', abs(L-ref), ref, dt)
