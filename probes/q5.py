import random, math, sys
from math import *
from svgelements import *
R=random.Random(int(sys.argv[1]))
def f6(x1,y1,rx,ry,phid,fa,fs,x2,y2):
    rx=abs(rx); ry=abs(ry); phi=radians(phid)
    cp,sp=cos(phi),sin(phi)
    dx=(x1-x2)/2; dy=(y1-y2)/2
    x1p=cp*dx+sp*dy; y1p=-sp*dx+cp*dy
    lam=x1p*x1p/(rx*rx)+y1p*y1p/(ry*ry)
    if lam>1: s=sqrt(lam); rx*=s; ry*=s
    num=rx*rx*ry*ry-rx*rx*y1p*y1p-ry*ry*x1p*x1p
    den=rx*rx*y1p*y1p+ry*ry*x1p*x1p
    co=sqrt(max(0,num/den))
    if fa==fs: co=-co
    cxp=co*rx*y1p/ry; cyp=-co*ry*x1p/rx
    cx=cp*cxp-sp*cyp+(x1+x2)/2; cy=sp*cxp+cp*cyp+(y1+y2)/2
    def ang(ux,uy,vx,vy):
        d=(ux*vx+uy*vy)/(hypot(ux,uy)*hypot(vx,vy)); d=max(-1,min(1,d)); a=acos(d)
        return -a if ux*vy-uy*vx<0 else a
    th1=ang(1,0,(x1p-cxp)/rx,(y1p-cyp)/ry)
    dth=ang((x1p-cxp)/rx,(y1p-cyp)/ry,(-x1p-cxp)/rx,(-y1p-cyp)/ry)
    if not fs and dth>0: dth-=2*pi
    if fs and dth<0: dth+=2*pi
    return cx,cy,rx,ry,phi,th1,dth
def pt(c,t):
    cx,cy,rx,ry,phi,th1,dth=c; th=th1+t*dth
    return (cx+rx*cos(th)*cos(phi)-ry*sin(th)*sin(phi), cy+rx*cos(th)*sin(phi)+ry*sin(th)*cos(phi))
from collections import Counter
worst=Counter(); bad=Counter()
def coord():
    k=R.random()
    if k<.15: return 0.0
    return R.choice([-1,1])*10**R.uniform(-3,5)
for it in range(int(sys.argv[2])):
    x1,y1,x2,y2=coord(),coord(),coord(),coord()
    if R.random()<.2: y2=y1
    chord=hypot(x2-x1,y2-y1)
    if chord==0: continue
    ratio=R.choice([1e-3,0.1,0.499,0.5,0.501,1,10,1e3, 10**R.uniform(-3,3)])
    rx=chord*ratio; ry=rx*R.choice([1,1,0.5,2,10**R.uniform(-2,2)])
    phid=R.choice([0,90,180,270,360,-90,30,-30,45,720+33,-400,R.uniform(-720,720)])
    fa,fs=R.randint(0,1),R.randint(0,1)
    stratum=('ratio',ratio if ratio in (1e-3,0.1,0.499,0.5,0.501,1,10,1e3) else 'rnd')
    try:
        a=Arc(Point(x1,y1),rx,ry,phid,fa,fs,Point(x2,y2))
        c=f6(x1,y1,rx,ry,phid,fa,fs,x2,y2)
    except Exception as e:
        bad[('EXC',type(e).__name__)]+=1; continue
    S=max(abs(x1),abs(y1),abs(x2),abs(y2),c[2],c[3],1e-3)
    halfturn = abs(abs(c[6])-pi)<1e-6
    d=0
    for i in range(17):
        t=i/16; p=a.point(t); q=pt(c,t)
        d=max(d,hypot(p.x-q[0],p.y-q[1]))
    rel=d/S
    worst[stratum]=max(worst[stratum],rel)
    if rel>1e-7:
        bad[stratum+(('half' if halfturn else 'nothalf'),)]+=1
        if bad[stratum+(('half' if halfturn else 'nothalf'),)]<=2: print('BAD',rel,(x1,y1,rx,ry,phid,fa,fs,x2,y2),a.sweep,c[6])
print(dict(bad)); 
for k,v in sorted(worst.items(),key=str): print(k,v)
