from svgelements import *
from math import *
import random
exec(open(__import__('os').path.join(__import__('os').path.dirname(__import__('os').path.abspath(__file__)),'p8.py')).read().split('worst={}')[0].split('random.seed(2)')[1])
random.seed(3)
worst=(0,)
for it in range(20000):
    a=(random.uniform(-100,100),random.uniform(-100,100)); b=(random.uniform(-100,100),random.uniform(-100,100))
    k=random.uniform(-1,2); eps=10**random.uniform(-14,-3)*random.choice([-1,1])
    nx,ny = -(b[1]-a[1]), (b[0]-a[0])
    c=(a[0]+k*(b[0]-a[0])+eps*nx, a[1]+k*(b[1]-a[1])+eps*ny)
    s=QuadraticBezier(a,c,b)
    try:
        L=s.length()
    except Exception as e:
        print('EXC', type(e).__name__, e, repr(s)); continue
    # reference: fine polyline w/ GL
    ref=quad(speed_q(s),0,1)
    err=abs(L-ref)/max(ref,1e-12)
    if err>worst[0]: worst=(err,L,ref,k,eps,repr(s))
print(worst)
