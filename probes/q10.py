"""Prototype (throw-away): C10 fault injection differential. usage: q10.py SEED N"""
import os; os.makedirs("/tmp/probe", exist_ok=True)
import io, math, sys, copy as _copy
import xml.etree.ElementTree as ET
from collections import Counter
import q3
from svgelements import SVG, Shape, Path, Move
q3.seed(int(sys.argv[1])); N=int(sys.argv[2]); R=q3.R
sys.setrecursionlimit(600)
POOL={
 'd':['M0,0 h','h 5','M0,0 L','M0,0 A 5 5 0 2 1 5 5','a 1 1 0 0 1 5 5','M 1','zz','M0,0 C 1,1','t 1 1','M0,0 Q 1','é','M0,0 L 1,1 #','s 1 1 2 2','c 1 1 2 2 3 3','v','M0,0 v'],
 'transform':['matrix(1,2)','rotate(abc)','skewX(q)','matrix(1)','scale()','translate(a)','rotate(','rotate','bogus(1)','matrix(1,2,3,4,5,6,7)','rotate(30) translate(1in, 5)','scale(1e999)','skewY()','translate(1,2','rotate(5furlongs)'],
 'fill':['rgb(1.5,2,3)','#12','bogus','url(#x)','rgb(1,2)','hsl(a,b,c)','','#1234567','rgb(300,0,0'],
 'stroke':['rgb(1.5,2,3)','#12','bogus','rgba(1,2,3,4,5)'],
 'len':['abc','-5','','1e','5furlongs','%','--3','1e999','NaN'],
 'points':['1,2,3','a b c','','1','1,,2'],
 'viewBox':['a b c d','0 0 10','0 0 0 0','0 0 -5 5',''],
 'preserveAspectRatio':['bogus nonsense','xMidYMid  slice',''],
 'opacity':['abc','-1','5'],
 'href':['#nope','','#self','#anc','nohash'],
}
LEN_ATTRS=['x','y','width','height','rx','ry','cx','cy','r','x1','y1','x2','y2','stroke-width']
def snap(doc):
    out={}
    for e in doc.elements():
        if isinstance(e, Shape) and e.id:
            try:
                p=abs(Path(e)); pts=[]
                for s in p:
                    if isinstance(s,Move): pts.append(tuple(s.end))
                    else: pts+=[tuple(s.point(i/4)) for i in range(5)]
            except Exception as ex:
                pts='EXC '+type(ex).__name__
            c=lambda x: None if x is None or x.value is None else x.value
            out.setdefault(e.id,[]).append((type(e).__name__,pts,c(e.fill),c(e.stroke),e.stroke_width))
    return out
keys=Counter(); shown=Counter()
for it in range(N):
    feat={'skew':False,'shape_transform':0.4,'nested_xy':0.3}
    text=q3.gen_doc(feat)
    root=ET.fromstring(text)
    parents={c:p for p in root.iter() for c in p}
    cands=[e for e in root.iter() if e is not root and q3.strip(e.tag)!='defs']
    el=R.choice(cands); tag=q3.strip(el.tag)
    kinds=['transform','fill','stroke','opacity']
    if tag=='path': kinds+=['d']*3
    if tag in('polyline','polygon'): kinds+=['points']*2
    if tag=='svg': kinds+=['viewBox','preserveAspectRatio']*2
    if tag=='use': kinds+=['href']*3
    if tag not in('g','use'): kinds+=['len']*2
    kind=R.choice(kinds); bad=R.choice(POOL[kind])
    if kind=='len':
        attr=R.choice([a for a in LEN_ATTRS if a in el.attrib] or ['stroke-width'])
    elif kind=='opacity': attr=R.choice(['fill-opacity','stroke-opacity'])
    elif kind=='href':
        attr='href'
        for k in list(el.attrib):
            if k.endswith('href'): del el.attrib[k]
        if bad=='#self': el.set('id','selfu'); bad='#selfu'
        if bad=='#anc':
            p=parents.get(el)
            if p is not None and p is not root and q3.strip(p.tag)=='g': p.set('id','ancg'); bad='#ancg'
            else: bad='#nope'
    else: attr=kind
    el.set(attr,bad)
    faulty=ET.tostring(root,encoding='unicode')
    parents[el].remove(el)
    clean=ET.tostring(root,encoding='unicode')
    key_base=(tag,kind)
    try:
        d_clean=snap(SVG.parse(io.StringIO(clean)))
    except BaseException as ex:
        keys[('clean doc EXC',type(ex).__name__)]+=1; continue
    try:
        d_f=snap(SVG.parse(io.StringIO(faulty)))
    except BaseException as ex:
        k=('raises',tag,kind,type(ex).__name__, bad if kind in('transform','d','href') else '')
        keys[k]+=1; continue
    # siblings
    diff=None
    for i,v in d_clean.items():
        w=d_f.get(i)
        if w is None or len(w)<len(v): diff=('sibling missing',); break
        # the clean instances must appear among faulty's instances in order
        j=0
        for inst in w:
            if j<len(v) and inst==v[j]: j+=1
        if j<len(v): diff=('sibling changed',); break
    if diff:
        k=diff+(tag,kind,bad if kind in('viewBox','preserveAspectRatio') else '')
        keys[k]+=1
        if shown[k]<1: shown[k]+=1; open('/tmp/probe/ex10_%d.svg'%it,'w').write(faulty+'\n<!-- -->\n'+clean); print('EX',k,it)
    else: keys[('ok',)]+=1
for k,v in sorted(keys.items(),key=lambda kv:(-kv[1],str(kv[0]))): print(v,k)
