"""Prototype (throw-away): C15 length reference by Gauss-Legendre with splitting at speed minima,
and calibration of the envelope of the local-stop-criterion deficiency.
usage: q15.py SEED N
"""
import math
import random
import sys
import time
from collections import defaultdict

from svgelements import Arc, CubicBezier, Point, QuadraticBezier

R = random.Random(int(sys.argv[1]) if len(sys.argv) > 1 else 0)
N = int(sys.argv[2]) if len(sys.argv) > 2 else 200


def gl_nodes(n):
    xs, ws = [], []
    for i in range(1, n + 1):
        x = math.cos(math.pi * (i - 0.25) / (n + 0.5))
        for _ in range(100):
            p0, p1 = 1.0, x
            for k in range(2, n + 1):
                p0, p1 = p1, ((2 * k - 1) * x * p1 - (k - 1) * p0) / k
            dp = n * (x * p1 - p0) / (x * x - 1)
            dx = p1 / dp
            x -= dx
            if abs(dx) < 1e-16: break
        xs.append(x); ws.append(2 / ((1 - x * x) * dp * dp))
    return xs, ws


XS, WS = gl_nodes(24)


def gl(f, a, b):
    m, h = (a + b) / 2, (b - a) / 2
    return h * sum(w * f(m + h * x) for x, w in zip(XS, WS))


def integrate(f, a, b, breaks=(), tol=1e-13):
    """adaptive; returns (value, error estimate)"""
    pts = sorted(set([a, b] + [t for t in breaks if a < t < b]))
    total, err = 0.0, 0.0
    coarse = sum(abs(gl(f, pts[i], pts[i + 1])) for i in range(len(pts) - 1))
    floor = tol * coarse + 1e-300
    stack = [(pts[i], pts[i + 1], 0) for i in range(len(pts) - 1)]
    evals = 0
    while stack:
        lo, hi, d = stack.pop()
        whole = gl(f, lo, hi); mid = (lo + hi) / 2
        halves = gl(f, lo, mid) + gl(f, mid, hi)
        e = abs(whole - halves)
        evals += 1
        if e <= floor * (hi - lo) / (b - a) or d >= 40 or evals > 20000:
            total += halves; err += e
        else:
            stack.append((lo, mid, d + 1)); stack.append((mid, hi, d + 1))
    return total, err


def speed_minima(df2, lo=0.0, hi=1.0, n=200):
    """parameters where |B'|^2 has a local minimum (cusps / near cusps): sample + golden refine"""
    ts = [lo + (hi - lo) * i / n for i in range(n + 1)]
    vs = [df2(t) for t in ts]
    out = []
    for i in range(1, n):
        if vs[i] <= vs[i - 1] and vs[i] <= vs[i + 1]:
            a, b = ts[i - 1], ts[i + 1]
            for _ in range(80):
                c = a + (b - a) * 0.381966; d = a + (b - a) * 0.618034
                if df2(c) < df2(d): b = d
                else: a = c
            out.append((a + b) / 2)
    return out


def ref_length(seg):
    if isinstance(seg, QuadraticBezier):
        p0, p1, p2 = complex(*seg.start), complex(*seg.control), complex(*seg.end)
        d = lambda t: 2 * (1 - t) * (p1 - p0) + 2 * t * (p2 - p1)
    elif isinstance(seg, CubicBezier):
        p0, p1, p2, p3 = complex(*seg.start), complex(*seg.control1), complex(*seg.control2), complex(*seg.end)
        d = lambda t: 3 * (1 - t) ** 2 * (p1 - p0) + 6 * (1 - t) * t * (p2 - p1) + 3 * t * t * (p3 - p2)
    else:
        rx, ry = seg.rx, seg.ry; st = seg.get_start_t(); sw = seg.sweep
        f = lambda t: math.hypot(rx * math.sin(st + sw * t), ry * math.cos(st + sw * t)) * abs(sw)
        return integrate(f, 0.0, 1.0, breaks=[i / 16 for i in range(17)])
    f = lambda t: abs(d(t))
    br = speed_minima(lambda t: abs(d(t)) ** 2)
    return integrate(f, 0.0, 1.0, breaks=br)


def rc(scale):
    return R.choice([0.0, R.uniform(-1, 1), float(R.randint(-3, 3)) / 3]) * scale


stats = defaultdict(lambda: [0, 0.0, 0.0, 0.0])  # n, worst err/e, worst K, time
for it in range(N):
    scale = 10 ** R.uniform(-2, 4)
    kind = R.choice(["Q", "C", "C", "A", "A"])
    mode = "gen"
    if kind == "Q":
        mode = R.choice(["gen", "collinear", "cusp", "near"])
        a = (rc(scale), rc(scale)); b = (rc(scale), rc(scale)); c = (rc(scale), rc(scale))
        if mode == "collinear": k = R.uniform(-2, 3); c = (a[0] + k * (b[0] - a[0]), a[1] + k * (b[1] - a[1]))
        if mode == "cusp": b = a
        if mode == "near":
            k = R.uniform(-1, 2); e = 10 ** R.uniform(-14, -4)
            c = (a[0] + k * (b[0] - a[0]) - e * (b[1] - a[1]), a[1] + k * (b[1] - a[1]) + e * (b[0] - a[0]))
        seg = QuadraticBezier(a, c, b)
    elif kind == "C":
        mode = R.choice(["gen", "cusp", "collinear", "loop"])
        P = [(rc(scale), rc(scale)) for _ in range(4)]
        if mode == "collinear":
            P[1] = (P[0][0] + 0.7 * (P[3][0] - P[0][0]), P[0][1] + 0.7 * (P[3][1] - P[0][1]))
            P[2] = (P[0][0] - 0.4 * (P[3][0] - P[0][0]), P[0][1] - 0.4 * (P[3][1] - P[0][1]))
        if mode == "cusp": P[1], P[2] = P[3], P[0]
        if mode == "loop": P[3] = P[0]
        seg = CubicBezier(*P)
    else:
        mode = R.choice(["ecc", "nearcirc", "tiny", "big"])
        rx = abs(rc(scale)) + 0.01 * scale; ry = rx * (1 + 1e-9 if mode == "nearcirc" else 10 ** R.uniform(-2, 2))
        seg = Arc(Point(rc(scale), rc(scale)), rx, ry, R.uniform(-180, 180), R.randint(0, 1), R.randint(0, 1), Point(rc(scale), rc(scale)))
        if seg.sweep == 0: continue
    ref, rerr = ref_length(seg)
    for e in (1e-4, 1e-6):
        if e * 1e3 > max(ref, 1e-12) and kind != "Q":
            pass
        t0 = time.time()
        try:
            L = seg.length(error=e)
        except RecursionError:
            stats[(kind, mode, e, "RecursionError")][0] += 1; continue
        dt = time.time() - t0
        err = abs(L - ref)
        key = (kind, mode, e)
        s = stats[key]
        s[0] += 1
        tol = max(e, 1e-9 * ref)
        s[1] = max(s[1], (err - 10 * rerr) / tol)
        if kind != "Q" and ref > 0:
            s[2] = max(s[2], (err - 10 * rerr) / (ref * e * e) ** (1 / 3))
        s[3] = max(s[3], dt)
for k in sorted(stats, key=str):
    n, w, K, dt = stats[k]
    print(k, "n=%d worst err/tol=%.3g  K=%.3g  max time=%.3fs" % (n, w, K, dt))
