import random, math, sys
from svgelements import *
R = random.Random(int(sys.argv[1]) if len(sys.argv)>1 else 0)
LET = 'MmZzLlHhVvCcSsQqTtAa'
NARG = {'m':1,'l':1,'h':0,'v':0,'c':3,'s':2,'q':2,'t':1,'a':1,'z':0}
def num():
    k = R.random()
    if k<0.15: return 0.0
    if k<0.5: return float(R.randint(-20,20))
    if k<0.8: return round(R.uniform(-100,100), R.randint(0,6))
    return R.uniform(-1,1)*10**R.randint(-3,5)
def spell(x):
    # many spellings that evaluate to same float
    forms=[repr(x)]
    if x==int(x) and abs(x)<1e15:
        forms += ['%d'%x, '%d.0'%x, '%de0'%x] if x != 0 or True else []
    s = repr(x)
    if s.startswith('0.'): forms.append(s[1:])
    if s.startswith('-0.'): forms.append('-'+s[2:])
    if x>=0 and not repr(x).startswith('-'): forms.append('+'+R.choice(forms))
    forms.append('%.17e'%x); forms.append(('%.17E'%x))
    f = R.choice(forms)
    assert float(f)==x, (f,x)
    return f
def gen_prog():
    n = R.randint(1,12)
    prog=[]
    first=True
    for i in range(n):
        L = R.choice('Mm') if first else R.choice(LET)
        first=False
        low=L.lower()
        reps = 1 if low=='z' else R.randint(1,3)
        groups=[]
        for r in range(reps):
            if low in 'hv': groups.append([num()])
            elif low=='a':
                groups.append([abs(num())+R.choice([0,0.5,1]), abs(num())+R.choice([0,0.5,1]), num(), R.randint(0,1), R.randint(0,1), num(), num()])
            elif low=='z': pass
            else: groups.append([num() for _ in range(2*NARG[low])])
        zfin = low not in 'mzhv' and R.random()<0.12
        if zfin and low in 'lt': groups=groups[:1]
        prog.append((L, groups, zfin))
    return prog
WS=[' ','\t','\n','\r','\x0c']
def sep(required):
    k=R.random()
    if k<0.3: return ',' 
    if k<0.5: return R.choice(WS)+','+R.choice(WS)
    if k<0.8 or required: return R.choice(WS)*R.randint(1,2)
    return ''
def spell_prog(prog):
    out=[]
    for L,groups,zfin in prog:
        out.append(R.choice(['',' ','\n'])+L+R.choice(['',' ']))
        toks=[]
        for gi,g in enumerate(groups):
            g2=list(g)
            isarc = L.lower()=='a'
            last = gi==len(groups)-1
            if zfin and last: g2 = g2[:-2]
            for j,x in enumerate(g2):
                if isarc and j in (3,4): toks.append(('flag', str(x)))
                else: toks.append(('num', spell(float(x))))
            if zfin and last: toks.append(('z','z' if R.random()<.5 else 'Z'))
        s=''
        prevkind=None; prev=''
        for kind,t in toks:
            if prevkind is None: s+=t
            else:
                # can we omit separator?
                need=True
                if prevkind=='flag': need=False
                elif kind=='z': need=False
                elif kind=='num' and t[0] in '+-': need=False
                elif kind=='num' and t[0]=='.' and ('.' in prev or 'e' in prev.lower()): need=False
                s += sep(need) if need else (sep(False) if R.random()<.5 else '') 
                s+=t
            prevkind=kind; prev=t
        out.append(s)
    return ''.join(out)
def ref(prog):
    segs=[]; cur=None; start=None; lastc=None; lastdeg=0
    def P(x,y): return (x,y)
    for L,groups,zfin in prog:
        rel=L.islower(); low=L.lower()
        if low=='z':
            segs.append(('Close',cur,None,None,start)); cur=start; lastc=None;lastdeg=0; continue
        for gi,g in enumerate(groups):
            usez = zfin and gi==len(groups)-1
            def pt(i):
                x,y=g[i],g[i+1]
                if rel and cur is not None: return (x+cur[0], y+cur[1])
                return (x,y)
            if low=='m':
                if gi==0:
                    p=pt(0); segs.append(('Move',cur,None,None,p)); cur=p; start=p
                else:
                    p=pt(0); segs.append(('Line',cur,None,None,p)); cur=p
                lastc=None;lastdeg=0
            elif low=='l':
                p = start if usez else pt(0); segs.append(('Line',cur,None,None,p)); cur=p; lastc=None;lastdeg=0
            elif low=='h':
                p=(g[0]+cur[0] if rel else g[0], cur[1]); segs.append(('Line',cur,None,None,p)); cur=p; lastc=None;lastdeg=0
            elif low=='v':
                p=(cur[0], g[0]+cur[1] if rel else g[0]); segs.append(('Line',cur,None,None,p)); cur=p; lastc=None;lastdeg=0
            elif low=='c':
                c1=pt(0);c2=pt(2); e= start if usez else pt(4); segs.append(('Cubic',cur,c1,c2,e)); cur=e; lastc=c2; lastdeg=3
            elif low=='s':
                c1 = (2*cur[0]-lastc[0], 2*cur[1]-lastc[1]) if lastdeg==3 else cur
                c2=pt(0); e= start if usez else pt(2); segs.append(('Cubic',cur,c1,c2,e)); cur=e; lastc=c2; lastdeg=3
            elif low=='q':
                c1=pt(0); e= start if usez else pt(2); segs.append(('Quad',cur,c1,None,e)); cur=e; lastc=c1; lastdeg=2
            elif low=='t':
                c1 = (2*cur[0]-lastc[0], 2*cur[1]-lastc[1]) if lastdeg==2 else cur
                e= start if usez else pt(0); segs.append(('Quad',cur,c1,None,e)); cur=e; lastc=c1; lastdeg=2
            elif low=='a':
                e= start if usez else pt(5); segs.append(('Arc',cur,(g[0],g[1],g[2]),(g[3],g[4]),e)); cur=e; lastc=None;lastdeg=0
        if zfin:
            pass
    return segs
KN={'Move':Move,'Line':Line,'Close':Close,'Cubic':CubicBezier,'Quad':QuadraticBezier,'Arc':Arc}
def close(a,b):
    if a is None or b is None: return a is None and b is None
    return abs(a[0]-b[0])<=1e-9*max(1,abs(a[0]),abs(b[0])) and abs(a[1]-b[1])<=1e-9*max(1,abs(a[1]),abs(b[1]))
from collections import Counter
keys=Counter(); n=0
for it in range(int(sys.argv[2]) if len(sys.argv)>2 else 5000):
    prog=gen_prog()
    # zfin requires following z? SVG2: segment-completing close path both completes & closes: our ref must add Close. library adds Close when it sees z as command after.
    text=spell_prog(prog)
    exp=[]
    for (L,groups,zfin),_ in zip(prog,prog): pass
    # build expected with implicit Close after zfin commands
    prog2=[]
    for L,groups,zfin in prog:
        prog2.append((L,groups,zfin))
        if zfin: prog2.append(('z',[],False))
    exp=ref(prog2)
    n+=1
    try:
        p=Path(text)
    except Exception as e:
        keys[('EXC',type(e).__name__)]+=1
        if keys[('EXC',type(e).__name__)]<=3: print('EXC',type(e).__name__,e,repr(text))
        continue
    if len(p)!=len(exp):
        keys['len']+=1
        if keys['len']<=4: print('LEN',len(p),len(exp),repr(text)); print('   LIB',[type(q).__name__[0] for q in p]); print('   REF',[x[0][0] for x in exp]); print('   PROG',[(L,len(g),z) for L,g,z in prog])
        continue
    for i,(s,x) in enumerate(zip(p,exp)):
        if type(s) is not KN[x[0]]:
            keys[('kind',x[0],type(s).__name__)]+=1; break
        bad=None
        if not close(tuple(s.end) if s.end is not None else None, x[4]): bad='end'
        elif i>0 and not close(tuple(s.start) if s.start is not None else None, x[1]): bad='start'
        elif x[0]=='Cubic' and not (close(tuple(s.control1),x[2]) and close(tuple(s.control2),x[3])): bad='ctrl'
        elif x[0]=='Quad' and not close(tuple(s.control),x[2]): bad='ctrl'
        if bad:
            prevk = exp[i-1][0] if i>0 else None
            keys[(x[0],bad,'prev='+str(prevk))]+=1
            if keys[(x[0],bad,'prev='+str(prevk))]<=2: print('MISMATCH',x[0],bad,'prev',prevk,repr(text)[:150], repr(s), x)
            break
print(n, dict(keys))
