from svgelements import *
import io
NS='xmlns="http://www.w3.org/2000/svg" xmlns:xlink="http://www.w3.org/1999/xlink"'
def shapes(d): return [e for e in d.elements() if isinstance(e, Shape)]
def geo(e):
    p = abs(Path(e)); return p.d()
def rt(label, text, **kw):
    try:
        d1 = SVG.parse(io.StringIO(text), **kw)
        x1 = d1.string_xml()
        d2 = SVG.parse(io.StringIO(x1), **kw)
        x2 = d2.string_xml()
        g1 = [geo(e) for e in shapes(d1)]; g2 = [geo(e) for e in shapes(d2)]
        print(label, 'same' if g1==g2 else 'DIFF')
        if g1!=g2:
            print('   xml', x1)
            for a,b in zip(g1,g2):
                if a!=b: print('   ',a,'\n   ',b)
        p1 = [(str(e.fill), str(e.stroke), e.stroke_width, e.id) for e in shapes(d1)]; p2 = [(str(e.fill), str(e.stroke), e.stroke_width, e.id) for e in shapes(d2)]
        if p1!=p2: print('   PAINT', p1, p2)
    except BaseException as e:
        import traceback; traceback.print_exc()
        print(label, 'EXC', type(e).__name__, str(e)[:100])
def doc(body, attrs='width="100" height="100"'):
    return '<svg %s %s>%s</svg>' % (NS, attrs, body)
rt('rect translate to zero', doc('<rect x="5" y="5" width="5" height="5" transform="translate(-5,-5)"/>'))
rt('rect rot180', doc('<rect x="5" y="5" width="5" height="3" rx="1" transform="rotate(180)"/>'))
rt('circle nonuniform', doc('<circle cx="5" cy="5" r="3" transform="scale(2,1)"/>'))
rt('ellipse rot', doc('<ellipse cx="5" cy="5" rx="3" ry="1" transform="rotate(30)"/>'))
rt('viewbox', doc('<rect x="5" y="5" width="5" height="5" stroke="red" stroke-width="2"/><circle r="3"/>', 'viewBox="0 0 50 25" width="100" height="100"'))
rt('viewbox noreify', doc('<rect x="5" y="5" width="5" height="5" stroke="red" stroke-width="2"/><circle r="3"/>', 'viewBox="0 0 50 25" width="100" height="100"'), reify=False)
rt('path rel', doc('<path d="m1,1 l 2,2 q 1,1 2,0 t 2,0 a 5,3 20 0 1 3,3 z"/>'))
rt('polyline', doc('<polyline points="1,2 3,4 5,1" fill="none" stroke="#123456" stroke-opacity="0.5"/>'))
rt('line', doc('<line x1="0" y1="0" x2="5" y2="0" stroke="blue"/>'))
rt('line at zero', doc('<line x1="3" y1="0" x2="5" y2="0" transform="translate(-3,0)" stroke="blue"/>'))
rt('use', doc('<defs><rect id="r" width="5" height="5"/></defs><use xlink:href="#r" x="10" y="10"/>'))
rt('group transform', doc('<g transform="rotate(45) scale(2)"><rect width="5" height="5"/><g transform="translate(3,3)"><circle r="2"/></g></g>'))
rt('style', doc('<style>rect{fill:red}</style><rect class="k" width="5" height="5"/>'))
rt('units', doc('<rect x="1in" width="1cm" height="5mm"/>', 'width="2in" height="2in" viewBox="0 0 100 100"'))
rt('inkscape style', doc('<rect style="-inkscape-stroke:none;fill:red" width="5" height="5"/>'))
# programmatic
s = SVG(); s.append(Rect(0,0,"2in","2in")); s.append(Circle(5,5,3, transform="rotate(30)", fill='red', stroke='blue', id='c'))
try:
    x = s.string_xml(); print(x); d2 = SVG.parse(io.StringIO(x)); print([repr(e) for e in shapes(d2)])
except Exception as e: print('EXC', type(e).__name__, e)
