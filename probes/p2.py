from svgelements import *
def t(label, f):
    try:
        print(label, '->', f())
    except Exception as e:
        print(label, 'EXC', type(e).__name__, e)
# C01 smooth after other degree
t('Q then S', lambda: repr(Path('M0,0 Q 1,1 2,0 S 3,3 4,0')[-1]))
t('C then T', lambda: repr(Path('M0,0 C 1,1 2,2 3,0 T 6,0')[-1]))
t('L then S', lambda: repr(Path('M0,0 L 2,0 S 3,3 4,0')[-1]))
t('z then T', lambda: repr(Path('M1,1 L 2,0 z T 6,0')[-1]))
t('compact', lambda: Path('M.5.5-1-2l1e1-2.5.5').d())
t('flags', lambda: Path('M0,0a5,5 0 0110,10').d())
t('segment z', lambda: repr(Path('M1,1 L 5,5 C 0,100 100,0 z')))
t('z nonmove', lambda: repr(Path('M1,1 L 5,5 z l 1,1 z')))
t('m first', lambda: repr(Path('m1,1 2,2 3,3')))
t('MM', lambda: repr(Path('M1,1 M 2,2 m 1,1 l 1 1')))
# C07 number format
t('pt str', lambda: str(Point(1.5e-10, 2.5e+20)))
t('rel d', lambda: Path(Move((100000,100000)), Line((100000,100000),(100000.00000000015,100000))).d(relative=True))
t('arc d', lambda: Path('M0,0 A 100.0004,100.0004 0 0 1 200,0').d())
p = Path('M0,0 A 100.0004,100.0004 0 0 1 200,0'); q = Path(p.d())
t('arc rt', lambda: (p[1].point(0.5), q[1].point(0.5)))
# C05
a = Arc(Point(0,0), 0, 5, 0, 0, 1, Point(10,0))
t('zero radius', lambda: (a.length(), a.point(0.5), a.bbox(), Arc(Point(10,0), 0, 5, 0, 0, 1, Point(0,5)).bbox()))
t('neg radius ctor', lambda: (Arc(Point(0,0), -10, 5, 30, 0, 1, Point(10,3)).point(0.5), Arc(Point(0,0), 10, 5, 30, 0, 1, Point(10,3)).point(0.5)))
t('neg radius path', lambda: (Path('M0,0 A -10 5 30 0 1 10 3')[1].point(0.5)))
t('coincident', lambda: (repr(Path('M1,1 A 5 5 0 0 1 1 1')), Path('M1,1 A 5 5 0 0 1 1 1').length(), Path('M1,1 A 5 5 0 0 1 1 1').bbox()))
