from svgelements import *
from math import *
import random
random.seed(5)
def resid(arc, p):
    # implicit ellipse residual relative
    rot = arc.get_rotation(); c = arc.center
    dx, dy = p.x-c.x, p.y-c.y
    x = dx*cos(rot)+dy*sin(rot); y = -dx*sin(rot)+dy*cos(rot)
    # distance-ish: radial scale factor
    s = hypot(x/arc.rx, y/arc.ry)
    return abs(s-1)*min(arc.rx,arc.ry)/max(arc.rx,arc.ry), abs(s-1)
worstc = 0; worstq=0
for it in range(2000):
    rx = 10**random.uniform(-1,2); ry = rx*10**random.uniform(-2,2)
    a = Arc(Point(random.uniform(-50,50),random.uniform(-50,50)), rx, ry, random.uniform(-360,360), random.randint(0,1), random.randint(0,1), Point(random.uniform(-50,50),random.uniform(-50,50)))
    if a.sweep == 0: continue
    cs = list(a.as_cubic_curves()); qs = list(a.as_quad_curves())
    assert abs(cs[0].start - a.start) < 1e-9 and abs(cs[-1].end - a.end) < 1e-9
    assert abs(qs[0].start - a.start) < 1e-9 and abs(qs[-1].end - a.end) < 1e-9
    for i in range(len(cs)-1): assert abs(cs[i].end - cs[i+1].start) < 1e-9
    R = max(a.rx, a.ry)
    for s in cs:
        for k in range(1,16):
            p = s.point(k/16)
            # true distance to ellipse approx via normalized
            r = resid(a, p)[1]*min(a.rx,a.ry)/R
            worstc = max(worstc, r)
    for s in qs:
        for k in range(1,16):
            p = s.point(k/16)
            r = resid(a, p)[1]*min(a.rx,a.ry)/R
            worstq = max(worstq, r)
print('cubic worst', worstc, 'quad worst', worstq)
p = Path('M0,0 L 5,5 A 10,5 30 1 0 20,20 L 30,30 A 1,1 0 0 1 30,30 z')
q = Path(p); 
from copy import copy
q = copy(p); q.approximate_arcs_with_cubics(); print(q.d(), q._is_valid())
q = copy(p); q.approximate_arcs_with_quads(0.02); print(len(q), q._is_valid())
