from svgelements import *
from math import *
import random
random.seed(1)
def rc(scale=100):
    return random.choice([0.0, random.uniform(-scale, scale), round(random.uniform(-scale,scale))])
def sample_bbox(seg, n=400):
    xs=[];ys=[]
    for i in range(n+1):
        p = seg.point(i/n); xs.append(p.x); ys.append(p.y)
    return min(xs),min(ys),max(xs),max(ys)
bad = 0; tot=0
worst = 0
for it in range(3000):
    kind = random.choice('QCA')
    try:
        if kind=='Q':
            seg = QuadraticBezier((rc(),rc()),(rc(),rc()),(rc(),rc()))
        elif kind=='C':
            seg = CubicBezier((rc(),rc()),(rc(),rc()),(rc(),rc()),(rc(),rc()))
        else:
            seg = Arc(Point(rc(),rc()), abs(rc())+0.1, abs(rc())+0.1, random.choice([0,30,90,180,270,45,-400, random.uniform(-360,360)]), random.randint(0,1), random.randint(0,1), Point(rc(),rc()))
        bb = seg.bbox()
        sb = sample_bbox(seg)
    except Exception as e:
        print('EXC', kind, type(e).__name__, e, repr(seg)); continue
    tot+=1
    size = max(sb[2]-sb[0], sb[3]-sb[1], 1e-9)
    # containment
    cont = min(sb[0]-bb[0], sb[1]-bb[1], bb[2]-sb[2], bb[3]-sb[3])
    # tightness: bb not bigger than sampled by more than sampling resolution
    tight = max(sb[0]-bb[0], sb[1]-bb[1], bb[2]-sb[2], bb[3]-sb[3])
    if cont < -1e-9*size or tight > 1e-3*size:
        bad+=1
        if bad<=10: print(kind, 'cont',cont,'tight',tight, 'size', size, repr(seg), bb, sb)
print(bad, tot)
