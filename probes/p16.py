from svgelements import *
import io
def t(label, f):
    try:
        print(label, '->', f())
    except Exception as e:
        print(label, 'EXC', type(e).__name__, e)
t('rx only', lambda: Rect(0,0,10,6,2).d())
t('ry only kw', lambda: Rect(x=0,y=0,width=10,height=6,ry=2).d())
t('rx over', lambda: Rect(0,0,10,6,20,1).d())
t('rx over both', lambda: Rect(0,0,10,6,20,20).d())
t('rx auto over', lambda: Rect(0,0,10,6,4).d())   # rx=4 -> ry auto=4 -> clamp ry to 3
t('rx pct', lambda: Rect(0,0,10,6,"10%","50%").d())
t('rx zero', lambda: Rect(0,0,10,6,0,3).d())
t('rx neg', lambda: Rect(0,0,10,6,-1,3).d())
t('zero w', lambda: (Rect(0,0,0,6).d(), Path(Rect(0,0,0,6)), Circle(0,0,0).d(), Ellipse(0,0,3,0).d(), Polyline().d(), Polygon().d()))
t('eq', lambda: (Rect(0,0,10,6,2,1) == Path(Rect(0,0,10,6,2,1)), Rect(0,0,10,6,2,1) == Path(Rect(0,0,10,6,2,1).d()), Circle(1,2,3) == Path(Circle(1,2,3).d()), Ellipse(1,2,3,4)*'rotate(30)' == Path((Ellipse(1,2,3,4)*'rotate(30)').d()) ))
t('circle d', lambda: Circle(1,2,3).d())
t('polygon 1pt', lambda: (Polygon((1,1)).d(), Polyline((1,1)).d(), Polygon((1,1),(1,1)).d()))
t('line', lambda: SimpleLine(0,0,1,1).d())
t('dict', lambda: Rect({'x':'1','y':'2','width':'10','height':'6','rx':'20'}).d())
t('bbox len', lambda: (Rect(0,0,10,6,2,1).bbox(), Path(Rect(0,0,10,6,2,1)).bbox(), Rect(0,0,10,6,2,1).length(), Path(Rect(0,0,10,6,2,1).d()).length()))
def docu(body, **kw): 
    return [repr(e) for e in SVG.parse(io.StringIO('<svg xmlns="http://www.w3.org/2000/svg" width="100" height="100">%s</svg>' % body), **kw).elements()][1:]
t('doc rx clamp units', lambda: docu('<rect width="1in" height="1in" rx="500"/>'))
t('doc rx clamp pct w', lambda: docu('<rect width="50%" height="50%" rx="500"/>'))
t('doc rx pct', lambda: docu('<rect width="50" height="20" rx="10%"/>'))
# C17
t('C17', lambda: (Path('M0,0 Q 1,1 2,0') + 'T 4,0' == Path('M0,0 Q 1,1 2,0 T 4,0'), (Path('M1,1 L 2,2 z') + 'l 1,0 z').d(), Path('M1,1 L 2,2 z l 1,0 z').d(), (Move((1,1)) + 'l 1 1 z').d()))
def iadd():
    p = Path('M1,1 c 1,1 2,2 3,0'); p += 's 1,1 2,0'; p.parse('z m 1,1 h 5'); return p.d(), Path('M1,1 c 1,1 2,2 3,0 s 1,1 2,0 z m 1,1 h 5').d()
t('iadd', iadd)
t('path+shape', lambda: (Path('M0,0 L1,1') + Rect(0,0,2,2)*'rotate(90)').d())
t('path+path transform', lambda: (Path('M0,0 L1,1') + Path('M5,5 L 6,6', transform='scale(2)')).d())
