import random, math, sys
from svgelements import *
R = random.Random(0)
def seed(x):
    R.seed(x)
LET = 'MmZzLlHhVvCcSsQqTtAa'
NARG = {'m':1,'l':1,'h':0,'v':0,'c':3,'s':2,'q':2,'t':1,'a':1,'z':0}
def num():
    k = R.random()
    if k<0.15: return 0.0
    if k<0.5: return float(R.randint(-20,20))
    if k<0.8: return round(R.uniform(-100,100), R.randint(0,6))
    return R.uniform(-1,1)*10**R.randint(-3,5)
def spell(x):
    # many spellings that evaluate to same float
    forms=[repr(x)]
    if x==int(x) and abs(x)<1e15:
        forms += ['%d'%x, '%d.0'%x, '%de0'%x] if x != 0 or True else []
    s = repr(x)
    if s.startswith('0.'): forms.append(s[1:])
    if s.startswith('-0.'): forms.append('-'+s[2:])
    if x>=0 and not repr(x).startswith('-'): forms.append('+'+R.choice(forms))
    forms.append('%.17e'%x); forms.append(('%.17E'%x))
    f = R.choice(forms)
    assert float(f)==x, (f,x)
    return f
def gen_prog():
    n = R.randint(1,12)
    prog=[]
    first=True
    for i in range(n):
        L = R.choice('Mm') if first else R.choice(LET)
        first=False
        low=L.lower()
        reps = 1 if low=='z' else R.randint(1,3)
        groups=[]
        for r in range(reps):
            if low in 'hv': groups.append([num()])
            elif low=='a':
                groups.append([abs(num())+R.choice([0,0.5,1]), abs(num())+R.choice([0,0.5,1]), num(), R.randint(0,1), R.randint(0,1), num(), num()])
            elif low=='z': pass
            else: groups.append([num() for _ in range(2*NARG[low])])
        zfin = low not in 'mzhv' and R.random()<0.12
        if zfin and low in 'lt': groups=groups[:1]
        prog.append((L, groups, zfin))
    return prog
WS=[' ','\t','\n','\r','\x0c']
def sep(required):
    k=R.random()
    if k<0.3: return ',' 
    if k<0.5: return R.choice(WS)+','+R.choice(WS)
    if k<0.8 or required: return R.choice(WS)*R.randint(1,2)
    return ''
def spell_prog(prog):
    out=[]
    for L,groups,zfin in prog:
        out.append(R.choice(['',' ','\n'])+L+R.choice(['',' ']))
        toks=[]
        for gi,g in enumerate(groups):
            g2=list(g)
            isarc = L.lower()=='a'
            last = gi==len(groups)-1
            if zfin and last: g2 = g2[:-2]
            for j,x in enumerate(g2):
                if isarc and j in (3,4): toks.append(('flag', str(x)))
                else: toks.append(('num', spell(float(x))))
            if zfin and last: toks.append(('z','z' if R.random()<.5 else 'Z'))
        s=''
        prevkind=None; prev=''
        for kind,t in toks:
            if prevkind is None: s+=t
            else:
                # can we omit separator?
                need=True
                if prevkind=='flag': need=False
                elif kind=='z': need=False
                elif kind=='num' and t[0] in '+-': need=False
                elif kind=='num' and t[0]=='.' and ('.' in prev or 'e' in prev.lower()): need=False
                s += sep(need) if need else (sep(False) if R.random()<.5 else '') 
                s+=t
            prevkind=kind; prev=t
        out.append(s)
    return ''.join(out)
def ref(prog):
    segs=[]; cur=None; start=None; lastc=None; lastdeg=0
    def P(x,y): return (x,y)
    for L,groups,zfin in prog:
        rel=L.islower(); low=L.lower()
        if low=='z':
            segs.append(('Close',cur,None,None,start)); cur=start; lastc=None;lastdeg=0; continue
        for gi,g in enumerate(groups):
            usez = zfin and gi==len(groups)-1
            def pt(i):
                x,y=g[i],g[i+1]
                if rel and cur is not None: return (x+cur[0], y+cur[1])
                return (x,y)
            if low=='m':
                if gi==0:
                    p=pt(0); segs.append(('Move',cur,None,None,p)); cur=p; start=p
                else:
                    p=pt(0); segs.append(('Line',cur,None,None,p)); cur=p
                lastc=None;lastdeg=0
            elif low=='l':
                p = start if usez else pt(0); segs.append(('Line',cur,None,None,p)); cur=p; lastc=None;lastdeg=0
            elif low=='h':
                p=(g[0]+cur[0] if rel else g[0], cur[1]); segs.append(('Line',cur,None,None,p)); cur=p; lastc=None;lastdeg=0
            elif low=='v':
                p=(cur[0], g[0]+cur[1] if rel else g[0]); segs.append(('Line',cur,None,None,p)); cur=p; lastc=None;lastdeg=0
            elif low=='c':
                c1=pt(0);c2=pt(2); e= start if usez else pt(4); segs.append(('Cubic',cur,c1,c2,e)); cur=e; lastc=c2; lastdeg=3
            elif low=='s':
                c1 = (2*cur[0]-lastc[0], 2*cur[1]-lastc[1]) if lastdeg==3 else cur
                c2=pt(0); e= start if usez else pt(2); segs.append(('Cubic',cur,c1,c2,e)); cur=e; lastc=c2; lastdeg=3
            elif low=='q':
                c1=pt(0); e= start if usez else pt(2); segs.append(('Quad',cur,c1,None,e)); cur=e; lastc=c1; lastdeg=2
            elif low=='t':
                c1 = (2*cur[0]-lastc[0], 2*cur[1]-lastc[1]) if lastdeg==2 else cur
                e= start if usez else pt(0); segs.append(('Quad',cur,c1,None,e)); cur=e; lastc=c1; lastdeg=2
            elif low=='a':
                e= start if usez else pt(5); segs.append(('Arc',cur,(g[0],g[1],g[2]),(g[3],g[4]),e)); cur=e; lastc=None;lastdeg=0
        if zfin:
            pass
    return segs
