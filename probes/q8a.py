import random, math, sys
from math import *
from svgelements import *
R=random.Random(int(sys.argv[1]))
from collections import Counter
worst=Counter()
def refbox(a):
    c=a.center; rx,ry=a.rx,a.ry; phi=a.get_rotation(); st=a.get_start_t(); sw=a.sweep
    def P(t): return (c.x+rx*cos(t)*cos(phi)-ry*sin(t)*sin(phi), c.y+rx*cos(t)*sin(phi)+ry*sin(t)*cos(phi))
    xs=[a.start.x,a.end.x]; ys=[a.start.y,a.end.y]
    tx=atan2(-ry*sin(phi), rx*cos(phi)); ty=atan2(ry*cos(phi), rx*sin(phi))
    lo,hi=min(st,st+sw),max(st,st+sw)
    for base,arr,idx in ((tx,xs,0),(ty,ys,1)):
        k0=ceil((lo-base)/pi); k=k0
        while base+k*pi<=hi:
            arr.append(P(base+k*pi)[idx]); k+=1
    return min(xs),min(ys),max(xs),max(ys)
for it in range(int(sys.argv[2])):
    scale=10**R.uniform(-3,5)
    def c(): return R.choice([0.0,R.uniform(-1,1)])*scale
    mode=R.choice(['endpoint','center','center_big','rot90'])
    try:
        if mode in('endpoint','rot90'):
            rot=R.choice([0,90,180,270,-90,360]) if mode=='rot90' else R.uniform(-360,360)
            a=Arc(Point(c(),c()), abs(c())+1e-3*scale, abs(c())+1e-3*scale, rot, R.randint(0,1),R.randint(0,1), Point(c(),c()))
            if a.sweep==0: continue
        else:
            cen=Point(c(),c()); rx=abs(c())+1e-3*scale; ry=abs(c())+1e-3*scale; rot=R.uniform(-pi,pi)
            sw=R.uniform(-1,1)*(tau if mode=='center' else 1.9*tau)
            if R.random()<.2: sw=R.choice([1e-3,-1e-3,tau,-tau,pi,-pi,tau/4])
            st=R.uniform(-pi,pi)
            e=Ellipse(cen.x,cen.y,rx,ry)
            prx=Point(cen.x+rx*cos(rot),cen.y+rx*sin(rot)); pry=Point(cen.x-ry*sin(rot),cen.y+ry*cos(rot))
            tmp=Arc(None,None,cen,prx,pry,sw)
            a=Arc(tmp.point_at_t(st), tmp.point_at_t(st+sw), cen, prx, pry, sw)
        bb=a.bbox(); rb=refbox(a)
    except Exception as ex:
        worst[('EXC',mode,type(ex).__name__)]+=1; continue
    size=max(rb[2]-rb[0],rb[3]-rb[1],1e-300); S=max(abs(v) for v in rb)+1e-300
    dev=max(abs(x-y) for x,y in zip(bb,rb))
    r=dev/(1e-9*size+1e-12*S)
    key=(mode,'sw>tau' if abs(a.sweep)>tau else 'sw<=tau')
    if r>worst[key]:
        worst[key]=r
        if r>1 and worst[('printed',)+key]<3:
            worst[('printed',)+key]+=1; print(key,r,dev,size,repr(a),bb,rb)
for k,v in sorted(worst.items(),key=str): print(k,v)
