from fractions import Fraction as F
from svgelements import *
from collections import Counter
PX={'':F(1),'px':F(1),'pt':F(4,3),'pc':F(16)}
AB={'in':F(1),'cm':F(100,254),'mm':F(10,254)}   # inches
units=['','px','pt','pc','in','cm','mm','%','em','ex','vw','vh','vmin','vmax']
amts=[F(0),F(1),F(3),F(-2),F(5,2),F(1,8),F(12),F(16),F(96)]
bad=Counter(); ok=Counter()
def fam(u): return 'px' if u in PX else 'ab' if u in AB else u
def val(a,u): return a*PX[u] if u in PX else a*AB[u]
def s(a,u): return '%s%s'%(float(a),u)
for u1 in units:
  for u2 in units:
    for a in amts:
      for b in amts:
        A=Length(s(a,u1)); B=Length(s(b,u2))
        same = fam(u1)==fam(u2)
        resolvable = same and (fam(u1) in ('px','ab') or u1==u2)
        for op in ('add','sub','div','lt','eq'):
            try:
                if op=='add': r=A+B
                elif op=='sub': r=A-B
                elif op=='div':
                    if b==0: continue
                    r=A/B
                elif op=='lt': r=A<B
                else: r=(A==B)
                exc=None
            except Exception as e:
                exc=type(e).__name__; r=None
            if not resolvable:
                if op=='eq':
                    if exc: bad[(op,u1,u2,'EXC '+exc)]+=1
                elif exc not in (None,'ValueError'): bad[(op,u1,u2,'EXC '+exc)]+=1
                # zero operands can legitimately resolve; skip value demands
                continue
            if u1==u2 and fam(u1) not in ('px','ab'):
                va,vb=a,b; conv=lambda L: F(L.amount).limit_denominator(10**9) if isinstance(L,Length) else None
                unit_of=lambda L:L.units
            else:
                va,vb=val(a,u1),val(b,u2)
            if exc:
                bad[(op,u1,u2,'EXC '+exc)]+=1; continue
            def lv(L):
                if not isinstance(L,Length): return F(L).limit_denominator(10**12)
                if L.units in PX: return F(L.amount).limit_denominator(10**12)*PX[L.units]
                if L.units in AB: return F(L.amount).limit_denominator(10**12)*AB[L.units]
                return F(L.amount).limit_denominator(10**12)
            def close(x,y): return abs(x-y)<=F(1,10**6)*max(abs(x),abs(y),F(1,10**9))
            if op=='add' and not close(lv(r),va+vb): bad[(op,u1,u2,'value')]+=1
            elif op=='sub' and not close(lv(r),va-vb): bad[(op,u1,u2,'value')]+=1
            elif op=='div' and vb!=0 and not close(F(r).limit_denominator(10**12),va/vb): bad[(op,u1,u2,'value')]+=1
            elif op=='lt':
                if close(va,vb): continue
                if r!=(va<vb): bad[(op,u1,u2,'order')]+=1
            elif op=='eq':
                if va==vb and not r and fam(u1)!='ab': bad[(op,u1,u2,'eq-false')]+=1
                if not close(va,vb) and abs(va-vb)>F(1,1000)*max(abs(va),abs(vb)) and r: bad[(op,u1,u2,'eq-true')]+=1
            ok[op]+=1
cells=Counter()
for (op,u1,u2,k),n in bad.items(): cells[(op,k)]+=1
print(dict(ok)); print(dict(cells))
for k in sorted(bad, key=str): print(k,bad[k])
