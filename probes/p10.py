from svgelements import *
from copy import copy
def t(label, f):
    try:
        print(label, '->', f())
    except Exception as e:
        import traceback; traceback.print_exc()
        print(label, 'EXC', type(e).__name__, e)
for d in ['M0,0 L1,0 L1,1',
          'M0,0 L1,0 L1,1 z',
          'M0,0 L1,0 L0,0 z',
          'M0,0 L1,0 L1,1 z L5,5 L6,5',
          'M0,0 L1,0 L1,1 z L5,5 L6,5 z',
          'M0,0 L1,0 M 5,5 L6,6 Q 7,7 8,6',
          'M0,0 L1,0 z M 5,5 L6,6 z',
          'M0,0',
          'M0,0 M1,1',
          'M0,0 z',
          'M0,0 L 1,1',
          'M0,0 A 5,3 30 1 0 4,4 C 1,2 3,4 5,6 z',
          'L 1,1 L 2,0',
          'M0,0 L1,1 M 2,2 M 3,3 L 4,4',
          ]:
    def f():
        p = Path(d); r = copy(p).reverse(); rr = copy(r).reverse()
        return '\n   ' + r.d() + '\n   valid=%s  rr==p %s   rr=%s' % (r._is_valid(), rr == p, rr.d())
    t(d, f)
def sub():
    p = Path('M0,0 L1,0 L1,1 z M5,5 L6,5 L7,7'); s = p.subpath(1); s.reverse(); return p.d(), p._is_valid()
t('subpath rev', sub)
def sub2():
    p = Path('M0,0 L1,0 L1,1 z L5,5 L6,5 M 9,9 L 10,10'); s = p.subpath(1); s.reverse(); return p.d(), p._is_valid()
t('subpath rev nonmove', sub2)
def sub3():
    p = Path('M0,0 L1,0 L1,1 M5,5 L6,5 L7,7'); s = p.subpath(0); s.reverse(); return p.d(), p._is_valid()
t('subpath0 rev', sub3)
