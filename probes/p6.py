from svgelements import *
from math import *
import io, random
def t(label, f):
    try:
        print(label, '->', f())
    except Exception as e:
        print(label, 'EXC', type(e).__name__, e)
t('vb meet', lambda: Viewbox.viewbox_transform(0,0,100,50, 0,0,10,10, 'xMinYMax meet'))
t('vb slice', lambda: Viewbox.viewbox_transform(0,0,100,50, 0,0,10,10, 'xMaxYMid slice'))
t('vb none', lambda: Viewbox.viewbox_transform(0,0,100,50, 0,0,10,10, 'none'))
t('vb none slice', lambda: Viewbox.viewbox_transform(0,0,100,50, 0,0,10,10, 'none slice'))
t('vb dblspace', lambda: Viewbox.viewbox_transform(0,0,100,50, 0,0,10,10, 'xMidYMid  slice'))
t('vb small', lambda: Viewbox.viewbox_transform(0,0,1e-3,2e-3, 5,5,3000,1000, None))
t('vb tiny result', lambda: Matrix(Viewbox.viewbox_transform(0,0,1e-3,2e-3, 5,5,3000,1000, None)))
def doc(s, **kw):
    return SVG.parse(io.StringIO(s), **kw)
t('doc zero vb', lambda: list(doc('<svg xmlns="http://www.w3.org/2000/svg" viewBox="0 0 0 10" width="100" height="100"><rect width="5" height="5"/></svg>').elements()))
t('doc incomplete vb', lambda: [repr(e) for e in doc('<svg xmlns="http://www.w3.org/2000/svg" viewBox="0 0 10" width="100" height="100"><rect width="5" height="5"/></svg>').elements()])
t('doc units', lambda: [repr(e) for e in doc('<svg xmlns="http://www.w3.org/2000/svg" viewBox="0 0 10 10" width="1in" height="2in"><rect width="5" height="5"/></svg>').elements()][1:])
t('doc pct caller', lambda: [repr(e) for e in doc('<svg xmlns="http://www.w3.org/2000/svg" viewBox="0 0 10 10" width="50%" height="100%"><rect width="5" height="5"/></svg>', width=400, height="2in").elements()][1:])
t('doc default size', lambda: [repr(e) for e in doc('<svg xmlns="http://www.w3.org/2000/svg" viewBox="0 0 10 20" preserveAspectRatio="xMaxYMax slice"><rect width="5" height="5"/></svg>').elements()][1:])
t('doc no vb', lambda: [repr(e) for e in doc('<svg xmlns="http://www.w3.org/2000/svg" width="100" height="50"><rect width="50%" height="50%"/></svg>').elements()][1:])
t('nested svg xy no vb', lambda: [repr(e) for e in doc('<svg xmlns="http://www.w3.org/2000/svg" width="100" height="100"><svg x="10" y="20" width="50" height="50"><rect width="5" height="5"/></svg><rect y="1" width="50%" height="5"/></svg>').elements()][1:])
t('nested svg vb', lambda: [repr(e) for e in doc('<svg xmlns="http://www.w3.org/2000/svg" width="100" height="100"><svg x="10" y="20" width="50" height="50" viewBox="0 0 10 10"><rect width="5" height="5"/><circle r="1"/></svg><rect y="1" width="50%" height="5"/></svg>').elements()][1:])
