from svgelements import *
from copy import copy
def t(label, f):
    try:
        print(label, '->', f())
    except Exception as e:
        import traceback; traceback.print_exc()
        print(label, 'EXC', type(e).__name__, e)
def a1():
    p = Path('M0,0 L1,0 L1,1'); q = Path(p); q[1].end.x = 9; return p.d()
t('Path(p) shares segs', a1)
def a2():
    p = Path('M0,0 L1,0 L1,1 M 5,5 L 6,6'); q = Path(p.subpath(1)); q *= Matrix.scale(2); q.reify(); return p.d(), q.d()
t('Path(subpath) reify', a2)
def a3():
    p = Path('M0,0 L1,0 L1,1 M 5,5 L 6,6'); s = p.subpath(1); s2 = s * Matrix.scale(2); return p.d()
t('subpath * M', a3)
def a4():
    p = Path('M0,0 L1,0 L1,1'); q = copy(p); q[1].end.x = 9; q.transform.post_scale(3); q.fill.red=1; return p.d(), repr(p.transform), p.fill
t('copy path', a4)
def a5():
    g = Group(); r = Rect(0,0,1,1); g.append(r); g2 = copy(g); g2[0].x = 5; g2[0].transform.post_scale(2); return repr(g[0])
t('copy group', a5)
def a6():
    r = Rect(0,0,2,2, fill='red'); r2 = r * Matrix.scale(2); r2.fill.red = 0; r2.values['x']=3; return repr(r), r.values
t('rect * M', a6)
def a7():
    pl = Polyline((0,0),(1,1),(2,0)); p2 = copy(pl); p2.points[0].x = 7; p3 = abs(pl*Matrix.scale(2)); return repr(pl), repr(p3)
t('polyline', a7)
def a8():
    pl = Polyline((0,0),(1,1),(2,0)); P = Path(pl); P[0].end.x = 99; return repr(pl)
t('Path(polyline)', a8)
def a9():
    m = Matrix.scale(2); n = ~m; k = m * Matrix.translate(1,1); return repr(m)
t('matrix ops', a9)
def a10():
    a = Arc(Point(0,0), 5, 3, 0, 0, 1, Point(4,4)); b = copy(a); b.center.x += 1; b.prx.x += 1; return repr(a)
t('arc copy', a10)
def a11():
    a = Arc(Point(0,0), 5, 3, 0, 0, 1, Point(4,4)); pts = a.npoint([0, 1]); pts[0].x = 77; return repr(a.start)
t('arc npoint alias', a11)
def a12():
    p = Path('M0,0 L1,0'); pt = p.first_point; pt.x=5; cp = p.current_point; cp.x = 9; return p.d()
t('first/current point', a12)
def a13():
    l = Line((0,0),(1,1)); pts = l.npoint([0.0, 1.0]); return pts
t('line npoint', a13)
def a14():
    t_ = Text('hi', x=1); t2 = copy(t_); t2.transform.post_scale(2); t2.text='x'; return repr(t_)
t('text', a14)
def a15():
    i = Image(href='a.png', x=1); i2 = copy(i); i2.transform.post_scale(2); return repr(i)
t('image', a15)
def a16():
    s = SVG(); s.append(Rect(0,0,1,1)); s2 = copy(s); s2[0].x = 4; return type(s2).__name__, repr(s[0])
t('svg copy', a16)
def a17():
    l = Length('5mm'); l2 = copy(l); l2 *= 2; l3 = l + '1mm'; l4 = -l; return l
t('length', a17)
def a18():
    c = Color('red'); c2 = Color(c); c2.green = 255; return c
t('color', a18)
def a19():
    p = Path('M0,0 L1,0'); q = p + 'L 5,5'; q[1].end.x = 3; q2 = p + Path('M 2,2 L 3,3'); return p.d()
t('path +', a19)
def a20():
    p = Path('M0,0 L1,0'); q = Path('M 2,2 L 3,3'); r = p + q; r[3].end.x = 100; return q.d()
t('path + path other', a20)
def a21():
    r = Rect(0,0,2,2); P = Path(r); P.transform.post_scale(2); P.fill = Color('blue'); return repr(r)
t('Path(rect)', a21)
def a22():
    c = Circle(0,0,0); c *= Matrix.scale(2); segs = c.segments(transformed=False); return c.apply
t('degenerate circle apply leak', a22)
def a23():
    m = Move((0,0)); l = m + 'l 1 1'; return repr(m), repr(l)
t('seg + str', a23)
