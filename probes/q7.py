import sys, math
from copy import copy
from collections import Counter
import g
from svgelements import *
g.seed(int(sys.argv[1])); N=int(sys.argv[2])
def pts(seg, n=8):
    if isinstance(seg,(Move,)): return [seg.end]
    return [seg.point(i/n) for i in range(n+1)]
def geo_equal(p,q,tol):
    if len(p)!=len(q): return 'len %d %d'%(len(p),len(q))
    for i,(a,b) in enumerate(zip(p,q)):
        if type(a) is not type(b): return 'kind %d %s %s'%(i,type(a).__name__,type(b).__name__)
        for x,y in zip(pts(a),pts(b)):
            if x is None or y is None: 
                if x is not y: return 'none'
                continue
            if abs(x-y)>tol: return 'pt %d %s %g'%(i,type(a).__name__,abs(x-y))
    return None
bad=Counter(); n=0
for it in range(N):
    prog=g.gen_prog(); text=g.spell_prog(prog)
    try: p=Path(text)
    except Exception as e: bad['parse '+type(e).__name__]+=1; continue
    S=max([1]+[abs(c) for s in p for pt in s if pt is not None for c in pt])
    # C07
    for rel in (None,False,True):
        for sm in (None,False,True):
            n+=1
            try:
                q=Path(p.d(relative=rel,smooth=sm))
                r=geo_equal(p,q,2e-10*S*(len(p) if rel is not False else 1)+1e-7*S*0)
            except Exception as e: r='EXC '+type(e).__name__
            if r:
                k=('C07',rel,sm,r.split()[0], r.split()[2] if r.startswith('pt') else '')
                bad[k]+=1
                if bad[k]<=2: print(k,r,repr(text)[:200],'\n    ',p.d(relative=rel,smooth=sm)[:300])
    # C16 only if all subpaths start with Move
    moves_ok = all(isinstance(sp[0],Move) for sp in p.as_subpaths())
    try:
        r1=copy(p).reverse(); r2=copy(r1).reverse()
        v=r1._is_valid(); e=geo_equal(p,r2,1e-9*S)
        if not v or e:
            k=('C16','moveless' if not moves_ok else 'normal','invalid' if not v else e.split()[0])
            bad[k]+=1
            if bad[k]<=2 and moves_ok: print(k,e,repr(text)[:200],'\n   ',p.d()[:200],'\n   ',r1.d()[:200],'\n   ',r2.d()[:200])
    except Exception as e:
        bad[('C16','EXC',type(e).__name__,'moveless' if not moves_ok else 'normal')]+=1
    # C17: split at command boundaries
    if len(prog)>=2:
        k=g.R.randint(1,len(prog)-1)
        a=g.spell_prog(prog[:k]); b=g.spell_prog(prog[k:])
        try:
            whole=Path(a+' '+b)
            for name,val in (('add',lambda: Path(a)+b),('iadd',lambda: Path(a).__iadd__(b)),('parse',lambda: (lambda x:(x.parse(b),x)[1])(Path(a)))):
                got=val(); e=geo_equal(whole,got,0)
                if e:
                    bad[('C17',name,e.split()[0])]+=1
                    if bad[('C17',name,e.split()[0])]<=2: print('C17',name,e,repr(a),repr(b))
        except Exception as e:
            bad[('C17','EXC',type(e).__name__)]+=1
print(n,dict(bad))
