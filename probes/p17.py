from svgelements import *
import random, math
random.seed(7)
bad=0
for it in range(20000):
    n = random.randint(2,6)
    pts = [(random.uniform(-100,100), random.uniform(-100,100)) for _ in range(n+1)]
    p = Path(Move(pts[0]), *[Line(pts[i], pts[i+1]) for i in range(n)])
    p.length()
    s = sum(p._lengths)
    t = random.choice([1-1e-16, 1-2e-16, 0.9999999999999999, math.nextafter(1,0), math.nextafter(s, 2) if s<1 else 1-1e-16])
    if t>=1 or t<=0: continue
    q = p.point(t)
    d = abs(q - Point(pts[-1]))
    if d > 1e-6:
        bad+=1
        if bad<5: print('BAD', t, s, q, pts[-1], d)
print('bad', bad)
