from svgelements import *
from math import *
def t(label, f):
    try:
        print(label, '->', f())
    except Exception as e:
        import traceback; traceback.print_exc()
        print(label, 'EXC', type(e).__name__, e)
def maxdev(seg, M, n=16):
    s2 = seg * M
    d = 0
    for i in range(n+1):
        tt = i/n
        p = seg.point(tt) * M
        q = s2.point(tt)
        d = max(d, abs(p-q))
    return d
arc = Path('M 10,0 A 10,5 30 0 1 0,8')[1]
for name, M in [('rot', Matrix('rotate(33)')), ('scale', Matrix('scale(2,3)')), ('rotscale', Matrix('rotate(20) scale(2,3)')),('scalerot', Matrix('scale(2,3) rotate(20)')), ('skew', Matrix('skewX(30)')), ('flip', Matrix('scale(-1,1)')), ('flipskew', Matrix('scale(1,-2) skewY(20) rotate(10)'))]:
    t('arc '+name, lambda: maxdev(arc, M))
# ellipse shape under shear
e = Ellipse(5, 5, 10, 4)
for name, M in [('rot', Matrix('rotate(33)')), ('scale', Matrix('scale(2,3)')), ('scalerot', Matrix('scale(2,3) rotate(20)')), ('skew', Matrix('skewX(30)')), ('flip', Matrix('scale(-1,1)')), ('flip90', Matrix('scale(-1,1) rotate(90)'))]:
    def f():
        segs = (e*M).segments()
        ref = [s*M for s in e.segments()]
        d = 0
        for a,b in zip(segs, ref):
            if isinstance(a, (Move, Close)):
                d = max(d, abs(a.end-b.end)); continue
            for i in range(9):
                d = max(d, abs(a.point(i/8)-b.point(i/8)))
        # reference truth
        d2 = 0
        for a, s in zip(segs, e.segments()):
            if isinstance(a, (Move, Close)): continue
            for i in range(9):
                d2 = max(d2, abs(a.point(i/8) - s.point(i/8)*M))
        return d, d2
    t('ellipse '+name, f)
# rect rounded under shear
r = Rect(0,0,20,10,3,2)
for name, M in [('skew', Matrix('skewX(30)')), ('scalerot', Matrix('scale(2,3) rotate(20)'))]:
    def f():
        segs = (r*M).segments()
        d2 = 0
        for a, s in zip(segs, r.segments()):
            if isinstance(a, (Move, Close)): continue
            for i in range(9):
                d2 = max(d2, abs(a.point(i/8) - s.point(i/8)*M))
        return d2
    t('rect '+name, f)
