from svgelements import *
from math import *
import colorsys
def t(label, f):
    try:
        print(label, '->', f())
    except Exception as e:
        print(label, 'EXC', type(e).__name__, e)
t('aliceblue', lambda: Color('aliceblue').hex)
t('AliceBlue', lambda: Color('AliceBlue').hex)
t('transparent', lambda: Color('transparent').hexa)
t('none', lambda: (Color('none').value, Color('none').hex, str(Color('none'))))
t('rgb float', lambda: Color('rgb(12.5, 0, 0)').hex)
t('rgb over', lambda: Color('rgb(300, -5, 0)').hex)
t('rgb pct', lambda: Color('rgb(110%, -5%, 50%)').hex)
t('rgba', lambda: Color('rgba(1,2,3,0.5)').hexa)
t('rgba pct alpha', lambda: Color('rgba(1,2,3,50%)').hexa)
t('hsl', lambda: (Color('hsl(120, 100%, 50%)').hex, Color('hsl(480, 100%, 50%)').hex, Color('hsl(-240, 100%, 50%)').hex))
t('hsl deg', lambda: Color('hsl(120deg, 100%, 50%)').hex)
t('hsla', lambda: Color('hsla(120, 100%, 50%, 0.3)').hexa)
t('hsl 30 60 40', lambda: (Color('hsl(30, 60%, 40%)').hex, [round(x*255) for x in colorsys.hls_to_rgb(30/360, .4, .6)]))
t('#rgba', lambda: Color('#1234').hexa)
t('hex rt', lambda: [ (hex(v), Color(Color(rgba=v).hex).value == v) for v in (0x12345678, 0x000000ff, 0xffffff00, 0x0)])
c = Color('#12345678')
def setr():
    c = Color('#12345678'); c.red = 0xab; return c.hexa
t('set red', setr)
def seta():
    c = Color('#12345678'); c.alpha = 0xab; return c.hexa
t('set alpha', seta)
def setop():
    c = Color('#12345678'); c.opacity = 0.5; return c.hexa
t('set opacity', setop)
def setrgb():
    c = Color('#12345678'); c.rgb = 0xaabbcc; return c.hexa
t('set rgb (alpha reset?)', setrgb)
def setbgr():
    c = Color('#12345678'); c.bgr = 0xaabbcc; return c.hexa
t('set bgr', setbgr)
def setargb():
    c = Color('#12345678'); c.argb = 0xaabbccdd; return c.hexa, hex(c.argb)
t('set argb', setargb)
def sethue():
    c = Color('#12345678'); h,s,l = c.hsl; c.hue = 200; return c.hexa, c.hsl, (h,s,l)
t('set hue', sethue)
def setl():
    c = Color('#12345678'); c.lightness = 0.5; return c.hexa
t('set lightness', setl)
t('Color(int)', lambda: (Color(0x123456).hexa, Color(0x123456, 0.5).hexa, Color(1,2,3).hexa, Color(1,2,3,128).hexa))
t('negative int', lambda: (Color(-1).hexa,))
t('eq', lambda: (Color('red') == 'red', Color('red') == Color('#f00'), Color('red') == 0xff0000ff, Color('none') == None))
# exhaustive keyword vs table? quickly count keywords handled
import re, inspect
src = inspect.getsource(Color.parse_color_lookup)
kws = re.findall(r'v == "([a-z]+)"', src)
print(len(kws), len(set(kws)))
