"""Prototype (throw-away): C06 shapes vs SVG 2 equivalent paths (reference = q3.shape_samples). usage: q6.py SEED N"""
import math, sys
import xml.etree.ElementTree as ET
from collections import Counter
import q3
from svgelements import *
q3.seed(int(sys.argv[1])); N=int(sys.argv[2]); R=q3.R
def mk(tag, el, how):
    a={k:v for k,v in el.attrib.items() if k not in('id','transform')}
    if how=='dict': 
        return {'rect':Rect,'circle':Circle,'ellipse':Ellipse,'line':SimpleLine,'polyline':Polyline,'polygon':Polygon}[tag](dict(a))
    f=lambda k,d=None: float(a[k]) if k in a else d
    if tag=='rect':
        if how=='pos': return Rect(f('x',0),f('y',0),f('width'),f('height'),f('rx'),f('ry')) if ('rx' in a or 'ry' in a) else Rect(f('x',0),f('y',0),f('width'),f('height'))
        return Rect(**{k:float(v) for k,v in a.items()})
    if tag=='circle':
        if how=='pos': return Circle(f('cx',0),f('cy',0),f('r'))
        return Circle(**{k:float(v) for k,v in a.items()})
    if tag=='ellipse':
        if how=='pos': return Ellipse(f('cx',0),f('cy',0),f('rx'),f('ry'))
        return Ellipse(**{k:float(v) for k,v in a.items()})
    if tag=='line':
        if how=='pos': return SimpleLine(f('x1',0),f('y1',0),f('x2',0),f('y2',0))
        return SimpleLine(**{k:float(v) for k,v in a.items()})
    pts=a['points']
    cls=Polyline if tag=='polyline' else Polygon
    if how=='pos': return cls(*[tuple(map(float,p.split(','))) for p in pts.split()])
    return cls(points=pts)
keys=Counter(); shown=Counter()
for it in range(N):
    el=q3.gen_shape({'shape_transform':0,'skew':False})
    tag=el.tag
    if tag=='path': continue
    if tag=='rect' and R.random()<.3:
        el.set(R.choice(['width','height']),'0.0')
    if tag=='rect' and R.random()<.2: el.set('rx', repr(-abs(float(el.get('rx','1')))))
    how=R.choice(['dict','pos','kw'])
    txt,M=q3.gen_transform(True) if R.random()<.7 else ('',q3.I)
    a,b,c,d=M[:4]; n1,n2=math.hypot(a,b),math.hypot(c,d)
    cls_m = 'identity' if M==q3.I else 'nonperp' if abs(a*c+b*d)>1e-9*n1*n2 else ('conf' if abs(n1-n2)<=1e-9*max(n1,n2) else ('aniso-axis' if abs(b)<1e-12 and abs(c)<1e-12 else 'aniso-rot'))
    if a*d-b*c<0: cls_m+='-reflect'
    try:
        sh=mk(tag,el,how)
        if txt: sh*= txt
        # negative rx treated as error -> ref: sharp corners
        if tag=='rect' and el.get('rx') and float(el.get('rx'))<0: el.attrib.pop('rx'); el.attrib.pop('ry',None)
        ref=q3.shape_samples(el,tag)
        segs=sh.segments()
    except Exception as e:
        keys[('EXC',tag,how,type(e).__name__)]+=1
        if shown[('EXC',tag,how)]<1: shown[('EXC',tag,how)]+=1; print('EXC',tag,how,e,el.attrib)
        continue
    if ref is None:
        ok = len(segs)==0 and sh.d()=='' and sh.bbox() is None
        keys[('degenerate', tag, 'ok' if ok else 'BAD')]+=1
        continue
    kinds=''.join({'Move':'M','Line':'L','Close':'Z','Arc':'A'}[type(s).__name__] for s in segs)
    if kinds!=''.join(k for k,_ in ref):
        keys[('kinds',tag,cls_m)]+=1; continue
    S=max([1.0]+[abs(v) for _,pts in ref for p in pts for v in q3.ap(M,p)])
    bad=None
    for (k,pts),s in zip(ref,segs):
        got=[tuple(s.end)] if k=='M' else [tuple(s.point(i/(len(pts)-1))) for i in range(len(pts))]
        for p,g in zip(pts,got):
            e=q3.ap(M,p)
            if math.hypot(e[0]-g[0],e[1]-g[1])>1e-9*S*max(1,q3.cond(M)): bad=k; break
        if bad: break
    if bad:
        # direction-only? compare reversed param for arcs
        keys[('geometry',tag,cls_m,'seg='+bad)]+=1
        continue
    # interchangeability
    try:
        P=Path(sh); eq1 = (sh==P); eq2 = (P==Path(sh.d()))
        bb=(sh.bbox(),P.bbox()); ln=(sh.length(error=1e-6),P.length(error=1e-6))
        if not eq1: keys[('shape!=Path(shape)',tag,cls_m)]+=1
        elif not eq2: keys[('Path(shape)!=Path(d)',tag,cls_m,'arcs' if 'A' in kinds else 'noarcs')]+=1
        elif any(abs(x-y)>1e-9*S for x,y in zip(*bb)) or abs(ln[0]-ln[1])>1e-9*S: keys[('bbox/len differ',tag,cls_m)]+=1
        else: keys[('ok',)]+=1
    except Exception as e:
        keys[('EXC2',tag,type(e).__name__)]+=1
for k,v in sorted(keys.items(),key=lambda kv:(-kv[1],str(kv[0]))): print(v,k)
