from svgelements import *
import traceback
def t(label, f):
    try:
        print(label, '->', f())
    except Exception as e:
        print(label, 'EXC', type(e).__name__, e)

# C09
for s in ['h','H','v','V','M0,0 h','M0,0 H','M0,0 v','M0,0 V','a 1','A 1','M0,0 a 1','h 5','v 5','l 1 2','a 1 1 0 0 1 5 5','A 1 1 0 0 1 5 5','M0,0 A 1 1 0 2 1 5 5', 'M0,0 a 1 1 0 2 1 5 5','M 0,0 L','M 0,0 L 1','M0,0 C 1,1','M','m','z','Z','M0,0zz','M 1 2 3','M0,0 Q 1','t 1 1','s 1 1 2 2','q 1 1 2 2','c 1 1 2 2 3 3','M0,0 é','M0,0 L 1,1 #','M0,0A','M0,0 A 5 5 0 0 1','M0,0 A 5 5 0 0 1 3', 'M0,0 a 5 5 0 1', 'M0,0 A 5 5 0', 'M0,0 A 5', 'M1e999,0 L 5,5', 'M nan,0', 'M0,0 L inf,1']:
    def f():
        p = Path(s)
        return repr(p), p.d(), p.bbox()
    t(repr(s), f)
