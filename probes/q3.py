"""Prototype (throw-away) of the C03 document reference evaluator + generator.

usage: q3.py SEED NCASES
Prints mismatch classes between SVG.parse(...) and an independent evaluation of the same XML.
"""
import io
import math
import random
import sys
import xml.etree.ElementTree as ET
from collections import Counter

from svgelements import SVG, Shape, Path, Move, Close, Point

R = random.Random(int(sys.argv[1]) if len(sys.argv) > 1 else 0)
N = int(sys.argv[2]) if len(sys.argv) > 2 else 300


def seed(x):
    R.seed(x)
NS = "http://www.w3.org/2000/svg"
XL = "http://www.w3.org/1999/xlink"

# ---------------------------------------------------------------- matrices (a,b,c,d,e,f), p' = M p
I = (1.0, 0.0, 0.0, 1.0, 0.0, 0.0)


def mm(A, B):  # apply B first, then A
    a1, b1, c1, d1, e1, f1 = A
    a2, b2, c2, d2, e2, f2 = B
    return (a1 * a2 + c1 * b2, b1 * a2 + d1 * b2, a1 * c2 + c1 * d2, b1 * c2 + d1 * d2,
            a1 * e2 + c1 * f2 + e1, b1 * e2 + d1 * f2 + f1)


def ap(M, p):
    return (M[0] * p[0] + M[2] * p[1] + M[4], M[1] * p[0] + M[3] * p[1] + M[5])


def T(x, y): return (1.0, 0.0, 0.0, 1.0, x, y)
def Sc(x, y): return (x, 0.0, 0.0, y, 0.0, 0.0)
def Rot(deg): a = math.radians(deg); return (math.cos(a), math.sin(a), -math.sin(a), math.cos(a), 0.0, 0.0)
def SkX(deg): return (1.0, 0.0, math.tan(math.radians(deg)), 1.0, 0.0, 0.0)


# ---------------------------------------------------------------- generator
def num(lo=-50, hi=50):
    k = R.random()
    if k < 0.15: return 0.0
    if k < 0.6: return float(R.randint(int(lo), int(hi)))
    return round(R.uniform(lo, hi), 3)


def pos(hi=40):
    return float(R.randint(1, hi)) if R.random() < 0.6 else round(R.uniform(0.5, hi), 3)


def gen_transform(allow_skew=True):
    """returns (text, matrix)"""
    n = R.randint(1, 3)
    txt = []
    M = I
    for _ in range(n):
        k = R.choice(["t", "s", "r", "rc", "m"] + (["k"] if allow_skew else []))
        if k == "t":
            x, y = num(), num(); txt.append("translate(%r,%r)" % (x, y)); m = T(x, y)
        elif k == "s":
            x, y = R.choice([2.0, 0.5, -1.0, 3.0, 1.5]), R.choice([2.0, 0.5, 1.0, -2.0]); txt.append("scale(%r %r)" % (x, y)); m = Sc(x, y)
        elif k == "r":
            a = R.choice([30, 45, 90, 180, -60, 270, 17.5]); txt.append("rotate(%r)" % a); m = Rot(a)
        elif k == "rc":
            a = R.choice([30, 90, -45]); x, y = num(), num(); txt.append("rotate(%r,%r,%r)" % (a, x, y)); m = mm(mm(T(x, y), Rot(a)), T(-x, -y))
        elif k == "k":
            a = R.choice([20, -30, 45]); txt.append("skewX(%r)" % a); m = SkX(a)
        else:
            v = [R.choice([1.0, 0.5, 2.0, -1.0]), R.choice([0.0, 0.5]), R.choice([0.0, -0.5]), R.choice([1.0, 2.0]), num(), num()]
            txt.append("matrix(%s)" % ",".join(repr(x) for x in v)); m = tuple(v)
        M = mm(M, m)
    return " ".join(txt), M


IDC = [0]


def nid():
    IDC[0] += 1
    return "e%d" % IDC[0]


def gen_shape(feat):
    kind = R.choice(["rect", "circle", "ellipse", "line", "polyline", "polygon", "path"])
    el = ET.Element(kind)
    el.set("id", nid())
    if kind == "rect":
        if R.random() < 0.7: el.set("x", repr(num()))
        if R.random() < 0.7: el.set("y", repr(num()))
        el.set("width", repr(pos())); el.set("height", repr(pos()))
        if R.random() < 0.4:
            el.set("rx", repr(pos(30)))
            if R.random() < 0.5: el.set("ry", repr(pos(30)))
        elif R.random() < 0.15:
            el.set("ry", repr(pos(30)))
    elif kind == "circle":
        if R.random() < 0.7: el.set("cx", repr(num()))
        if R.random() < 0.7: el.set("cy", repr(num()))
        el.set("r", repr(pos()))
    elif kind == "ellipse":
        if R.random() < 0.7: el.set("cx", repr(num()))
        if R.random() < 0.7: el.set("cy", repr(num()))
        el.set("rx", repr(pos())); el.set("ry", repr(pos()))
    elif kind == "line":
        for k in ("x1", "y1", "x2", "y2"):
            if R.random() < 0.8: el.set(k, repr(num()))
    elif kind in ("polyline", "polygon"):
        n = R.randint(1, 5)
        el.set("points", " ".join("%r,%r" % (num(), num()) for _ in range(n)))
    else:
        el.set("d", "M%r,%r l%r,%r Q%r,%r %r,%r z" % tuple(num() for _ in range(8)))
    if R.random() < feat["shape_transform"]:
        el.set("transform", gen_transform(feat["skew"])[0])
    return el


def gen_container(depth, feat, defs_ids):
    kind = R.choice(["g", "g", "g", "svg", "use", "defs", "hidden"] if depth > 0 else ["g"])
    if kind == "use" and not defs_ids:
        kind = "g"
    if kind == "use":
        el = ET.Element("use")
        el.set("{%s}href" % XL if R.random() < 0.5 else "href", "#" + R.choice(defs_ids))
        if R.random() < 0.6: el.set("x", repr(num()))
        if R.random() < 0.6: el.set("y", repr(num()))
        if R.random() < 0.5: el.set("transform", gen_transform(feat["skew"])[0])
        return el
    if kind == "svg":
        el = ET.Element("svg")
        if R.random() < feat["nested_xy"]:
            el.set("x", repr(num())); el.set("y", repr(num()))
        w, h = pos(60), pos(60)
        el.set("width", repr(w)); el.set("height", repr(h))
        if R.random() < 0.6:
            el.set("viewBox", "%r %r %r %r" % (num(), num(), pos(60), pos(60)))
            if R.random() < 0.5:
                el.set("preserveAspectRatio", R.choice(["none", "xMinYMin", "xMaxYMid slice", "xMidYMax meet"]))
    elif kind == "hidden":
        el = ET.Element("g"); el.set("display", "none")
    else:
        el = ET.Element(kind)
        if kind == "g" and R.random() < 0.6:
            el.set("transform", gen_transform(feat["skew"])[0])
    for _ in range(R.randint(1, 3)):
        if depth > 0 and R.random() < 0.35:
            el.append(gen_container(depth - 1, feat, defs_ids))
        else:
            el.append(gen_shape(feat))
    if kind in ("g", "defs") and R.random() < 0.7:
        i = nid(); el.set("id", i)
        if kind == "defs":
            # children of defs are referencable
            for c in el:
                if c.get("id"): defs_ids.append(c.get("id"))
        else:
            defs_ids.append(i)
    return el


def gen_doc(feat):
    IDC[0] = 0
    root = ET.Element("svg")
    root.set("xmlns", NS)
    root.set("xmlns:xlink", XL)
    w, h = pos(200) + 20, pos(200) + 20
    root.set("width", repr(w)); root.set("height", repr(h))
    if R.random() < 0.5:
        root.set("viewBox", "%r %r %r %r" % (num(), num(), pos(100), pos(100)))
        if R.random() < 0.5:
            root.set("preserveAspectRatio", R.choice(["none", "xMinYMax", "xMidYMid slice", "xMaxYMin meet"]))
    if R.random() < 0.2:
        root.set("transform", gen_transform(feat["skew"])[0])
    defs_ids = []
    # a defs block first so that uses can reference it
    d = ET.Element("defs")
    for _ in range(R.randint(1, 3)):
        s = gen_shape(feat); d.append(s); defs_ids.append(s.get("id"))
    if R.random() < 0.5:
        g = ET.Element("g"); g.set("id", nid())
        for _ in range(2): g.append(gen_shape(feat))
        if R.random() < 0.5: g.set("transform", gen_transform(feat["skew"])[0])
        d.append(g); defs_ids.append(g.get("id"))
    root.append(d)
    for _ in range(R.randint(1, 4)):
        root.append(gen_container(2, feat, defs_ids) if R.random() < 0.6 else gen_shape(feat))
    return ET.tostring(root, encoding="unicode")


# ---------------------------------------------------------------- reference evaluator
import re
FLOAT = r"[-+]?(?:\d+\.?\d*|\.\d+)(?:[eE][-+]?\d+)?"


def parse_transform(s):
    M = I
    for name, args in re.findall(r"([a-zA-Z]+)\s*\(([^)]*)\)", s or ""):
        v = [float(x) for x in re.findall(FLOAT, args)]
        n = name.lower()
        if n == "translate": m = T(v[0], v[1] if len(v) > 1 else 0.0)
        elif n == "scale": m = Sc(v[0], v[1] if len(v) > 1 else v[0])
        elif n == "rotate":
            m = Rot(v[0])
            if len(v) == 3: m = mm(mm(T(v[1], v[2]), m), T(-v[1], -v[2]))
        elif n == "skewx": m = SkX(v[0])
        elif n == "matrix": m = tuple(v)
        else: raise ValueError(name)
        M = mm(M, m)
    return M


def viewport_tf(ex, ey, ew, eh, vb, par):
    vx, vy, vw, vh = vb
    parts = (par or "xMidYMid meet").split()
    align = parts[0]; mos = parts[1] if len(parts) > 1 else "meet"
    sx, sy = ew / vw, eh / vh
    if align != "none":
        sx = sy = (min(sx, sy) if mos == "meet" else max(sx, sy))
    tx, ty = ex - vx * sx, ey - vy * sy
    if "xMid" in align: tx += (ew - vw * sx) / 2
    if "xMax" in align: tx += (ew - vw * sx)
    if "YMid" in align: ty += (eh - vh * sy) / 2
    if "YMax" in align: ty += (eh - vh * sy)
    return mm(T(tx, ty), Sc(sx, sy))


def fl(el, k, default=0.0):
    v = el.get(k)
    return default if v is None else float(v)


def arc_pts(cx, cy, rx, ry, t0, t1, n=4):
    return [(cx + rx * math.cos(t0 + (t1 - t0) * i / n), cy + ry * math.sin(t0 + (t1 - t0) * i / n)) for i in range(n + 1)]


def shape_samples(el, tag):
    """sample points of the SVG 2 equivalent path in the shape's user space; list of (kind, pts)"""
    out = []
    if tag == "rect":
        x, y, w, h = fl(el, "x"), fl(el, "y"), fl(el, "width"), fl(el, "height")
        if w <= 0 or h <= 0: return None
        rx = el.get("rx"); ry = el.get("ry")
        rx = None if rx is None else float(rx); ry = None if ry is None else float(ry)
        if rx is None and ry is None: rx = ry = 0.0
        elif rx is None: rx = ry
        elif ry is None: ry = rx
        rx = min(rx, w / 2); ry = min(ry, h / 2)
        if rx == 0 or ry == 0:
            return [("M", [(x, y)]), ("L", [(x, y), (x + w, y)]), ("L", [(x + w, y), (x + w, y + h)]), ("L", [(x + w, y + h), (x, y + h)]), ("Z", [(x, y + h), (x, y)])]
        q = math.pi / 2
        return [("M", [(x + rx, y)]), ("L", [(x + rx, y), (x + w - rx, y)]),
                ("A", arc_pts(x + w - rx, y + ry, rx, ry, -q, 0)), ("L", [(x + w, y + ry), (x + w, y + h - ry)]),
                ("A", arc_pts(x + w - rx, y + h - ry, rx, ry, 0, q)), ("L", [(x + w - rx, y + h), (x + rx, y + h)]),
                ("A", arc_pts(x + rx, y + h - ry, rx, ry, q, 2 * q)), ("L", [(x, y + h - ry), (x, y + ry)]),
                ("A", arc_pts(x + rx, y + ry, rx, ry, 2 * q, 3 * q)), ("Z", [(x + rx, y), (x + rx, y)])]
    if tag in ("circle", "ellipse"):
        cx, cy = fl(el, "cx"), fl(el, "cy")
        rx = fl(el, "r") if tag == "circle" else fl(el, "rx"); ry = fl(el, "r") if tag == "circle" else fl(el, "ry")
        if rx <= 0 or ry <= 0: return None
        q = math.pi / 2
        out = [("M", [(cx + rx, cy)])]
        for i in range(4): out.append(("A", arc_pts(cx, cy, rx, ry, i * q, (i + 1) * q)))
        out.append(("Z", [(cx + rx, cy), (cx + rx, cy)]))
        return out
    if tag == "line":
        a = (fl(el, "x1"), fl(el, "y1")); b = (fl(el, "x2"), fl(el, "y2"))
        return [("M", [a]), ("L", [a, b])]
    if tag in ("polyline", "polygon"):
        v = [float(x) for x in re.findall(FLOAT, el.get("points", ""))]
        pts = list(zip(v[0::2], v[1::2]))
        if not pts: return None
        out = [("M", [pts[0]])]
        for i in range(1, len(pts)): out.append(("L", [pts[i - 1], pts[i]]))
        if tag == "polygon": out.append(("Z", [pts[-1], pts[0]]))
        return out
    if tag == "path":
        # the generator only emits: M x,y l dx,dy Q cx,cy x,y z
        v = [float(x) for x in re.findall(FLOAT, el.get("d"))]
        p0 = (v[0], v[1]); p1 = (p0[0] + v[2], p0[1] + v[3]); c = (v[4], v[5]); p2 = (v[6], v[7])
        qs = [((1 - t) ** 2 * p1[0] + 2 * (1 - t) * t * c[0] + t * t * p2[0], (1 - t) ** 2 * p1[1] + 2 * (1 - t) * t * c[1] + t * t * p2[1]) for t in (0, .25, .5, .75, 1)]
        return [("M", [p0]), ("L", [p0, p1]), ("Q", qs), ("Z", [p2, p0])]
    return None


def strip(tag):
    return tag.split("}")[1] if "}" in tag else tag


def evaluate(root, caller_tf=None):
    ids = {e.get("id"): e for e in root.iter() if e.get("id")}
    out = []

    def walk(el, ctm, vp, hidden, in_defs, depth=0):
        tag = strip(el.tag)
        if el.get("display") == "none": hidden = True
        own = parse_transform(el.get("transform"))
        if tag == "svg":
            ctm = mm(ctm, own)
            is_root = el is root
            ex, ey = (0.0, 0.0) if is_root else (fl(el, "x"), fl(el, "y"))
            ew, eh = fl(el, "width"), fl(el, "height")
            vb = el.get("viewBox")
            if vb:
                vbv = [float(x) for x in re.findall(FLOAT, vb)]
                ctm = mm(ctm, viewport_tf(ex, ey, ew, eh, vbv, el.get("preserveAspectRatio")))
                vp = (vbv[2], vbv[3])
            else:
                ctm = mm(ctm, T(ex, ey)); vp = (ew, eh)
            for c in el: walk(c, ctm, vp, hidden, in_defs, depth + 1)
        elif tag == "g":
            ctm = mm(ctm, own)
            for c in el: walk(c, ctm, vp, hidden, in_defs, depth + 1)
        elif tag == "defs":
            return
        elif tag == "use":
            ctm = mm(mm(ctm, own), T(fl(el, "x"), fl(el, "y")))
            ref = el.get("{%s}href" % XL) or el.get("href")
            t = ids.get(ref[1:]) if ref else None
            if t is not None and depth < 30:
                walk(t, ctm, vp, hidden, False, depth + 1)
        else:
            s = shape_samples(el, tag)
            if s is None or hidden: return
            M = mm(ctm, own)
            out.append((tag, el.get("id"), [(k, [ap(M, p) for p in pts]) for k, pts in s], M))

    walk(root, caller_tf or I, None, False, False)
    return out


# ---------------------------------------------------------------- observation of the library
def observe(text, **kw):
    doc = SVG.parse(io.StringIO(text), **kw)
    res = []
    for e in doc.elements():
        if isinstance(e, Shape):
            p = abs(Path(e))
            segs = []
            for s in p:
                if isinstance(s, Move): segs.append(("M", [tuple(s.end)]))
                else:
                    n = 4 if type(s).__name__ in ("Arc", "QuadraticBezier", "CubicBezier") else 1
                    k = {"Line": "L", "Close": "Z", "Arc": "A", "QuadraticBezier": "Q", "CubicBezier": "C"}[type(s).__name__]
                    segs.append((k, [tuple(s.point(i / n)) for i in range(n + 1)]))
            res.append((type(e).__name__, e.id, segs))
    return res


def cond(M):
    a, b, c, d = M[0], M[1], M[2], M[3]
    s = math.hypot(a, b) ** 2 + math.hypot(c, d) ** 2
    det = abs(a * d - b * c)
    if det == 0: return float("inf")
    s1 = math.sqrt((s + math.sqrt(max(s * s - 4 * det * det, 0))) / 2)
    return s1 * s1 / det


def compare(exp, got):
    if len(exp) != len(got):
        return "count exp=%d got=%d" % (len(exp), len(got)), None
    for (tag, i, segs, M), (cls, gid, gsegs) in zip(exp, got):
        if i != gid:
            return "order/id %s vs %s" % (i, gid), None
        if [k for k, _ in segs] != [k for k, _ in gsegs]:
            return "kinds %s %s vs %s" % (tag, "".join(k for k, _ in segs), "".join(k for k, _ in gsegs)), (tag, i)
        S = max([1.0] + [abs(c) for _, pts in segs for p in pts for c in p])
        tol = 1e-9 * S * max(1.0, min(cond(M), 1e6))
        for (k, pts), (_, gp) in zip(segs, gsegs):
            for p, q in zip(pts, gp):
                if math.hypot(p[0] - q[0], p[1] - q[1]) > tol:
                    return "geometry %s seg=%s" % (tag, k), (tag, i)
    return None, None


def features_of(el_by_id, root, tag_id):
    """mechanism features of the mismatching element, for classification"""
    tag, i = tag_id
    parents = {c: p for p in root.iter() for c in p}
    el = el_by_id[i]
    chain = []
    e = el
    while e in parents:
        e = parents[e]; chain.append(strip(e.tag))
    f = []
    M = Mfor.get(i)
    if M is not None:
        a, b, c, d = M[:4]
        n1, n2 = math.hypot(a, b), math.hypot(c, d)
        perp = abs(a * c + b * d) <= 1e-9 * n1 * n2
        if not perp: f.append("ctm-nonperp")
        elif abs(n1 - n2) > 1e-9 * max(n1, n2): f.append("ctm-aniso-axis" if (abs(b) < 1e-12 and abs(c) < 1e-12) else "ctm-aniso-rot")
        if a * d - b * c < 0: f.append("ctm-reflect")
    nested = chain.count("svg") > 1
    if nested: f.append("in-nested-svg")
    if tag == "rect" and (el.get("x") is None or el.get("y") is None): f.append("rect-xy-omitted")
    if tag == "rect" and (el.get("rx") or el.get("ry")): f.append("rounded")
    return ",".join(f)


Mfor = {}


def main():
    keys = Counter()
    shown = Counter()
    for it in range(N):
        feat = {"skew": R.random() < 0.3, "shape_transform": 0.5, "nested_xy": 0.7}
        text = gen_doc(feat)
        root = ET.fromstring(text)
        exp = evaluate(root)
        for reify in (True, False):
            try:
                got = observe(text, reify=reify)
            except Exception as e:
                keys[("EXC", type(e).__name__)] += 1
                continue
            Mfor.clear(); Mfor.update({i: M for _, i, _, M in exp})
            err, tid = compare(exp, got)
            if err:
                by_id = {e.get("id"): e for e in root.iter() if e.get("id")}
                ft = features_of(by_id, root, tid) if tid else ""
                used = tid is not None and sum(1 for u in root.iter() if (u.get("href") or u.get("{%s}href" % XL)) == "#" + tid[1]) > 0
                k = (err.split()[0], err.split()[1] if tid else "", ft, "reify=%s" % reify)
                keys[k] += 1
                if shown[k[:3]] < 1:
                    shown[k[:3]] += 1
                    print("----", k, err, "\n", text[:1500])
            else:
                keys[("ok", "reify=%s" % reify)] += 1
    for k, v in sorted(keys.items(), key=lambda kv: -kv[1]):
        print(v, k)


if __name__ == "__main__":
    main()
