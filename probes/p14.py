from svgelements import *
import io
NS='xmlns="http://www.w3.org/2000/svg" xmlns:xlink="http://www.w3.org/1999/xlink"'
def doc(body, **kw):
    return SVG.parse(io.StringIO('<svg %s width="100" height="100">%s</svg>' % (NS, body)), **kw)
def t(label, body, **kw):
    try:
        d = doc(body, **kw)
        print(label, '->', [(e.fill.hexa if e.fill is not None and e.fill.value is not None else e.fill and 'none', e.stroke.hexa if e.stroke is not None and e.stroke.value is not None else 'none', e.stroke_width) for e in d.elements() if isinstance(e, Shape)])
    except BaseException as e:
        print(label, 'EXC', type(e).__name__, str(e)[:80])
R = '<rect %s width="5" height="5"/>'
t('id vs class', '<style>#a{fill:red} .c{fill:blue}</style>' + R % 'id="a" class="c"')
t('class vs id order', '<style>.c{fill:blue} #a{fill:red}</style>' + R % 'id="a" class="c"')
t('* then type no semicolon', '<style>*{fill:red} rect{stroke:blue}</style>' + R % '')
t('* then type semicolon', '<style>*{fill:red;} rect{stroke:blue}</style>' + R % '')
t('type vs class', '<style>.c{fill:blue} rect{fill:red}</style>' + R % 'class="c"')
t('type.class vs class', '<style>rect.c{fill:blue} .c{fill:red}</style>' + R % 'class="c"')
t('attr vs style rule', '<style>rect{fill:red}</style>' + R % 'fill="blue"')
t('inline vs rule', '<style>#a{fill:red}</style>' + R % 'id="a" style="fill:blue"')
t('comma', '<style>circle, rect {fill:red}</style>' + R % '')
t('comment', '<style>/* rect{fill:blue} */ rect{fill:red}</style>' + R % '')
t('same selector twice', '<style>rect{fill:red} rect{fill:blue}</style>' + R % '')
t('inherit g', '<g fill="red" stroke="blue" stroke-width="3">' + R % '' + R % 'fill="green"' + '</g>')
t('inherit g style rule', '<style>g{fill:red}</style><g>' + R % '' + R % 'fill="green"' + '</g>')
t('currentColor', '<g color="red">' + R % 'fill="currentColor" stroke="currentColor"' + '</g>' + R % 'fill="currentColor"', color='blue')
t('currentColor own', R % 'fill="currentColor" color="lime"')
t('opacity', R % 'fill="red" fill-opacity="0.5" stroke="blue" stroke-opacity="0.25"')
t('opacity inherit', '<g fill-opacity="0.5">' + R % 'fill="red"' + '</g>')
t('use inherit', '<defs><rect id="r" width="5" height="5"/></defs><use xlink:href="#r" fill="red" stroke="blue"/>')
t('use inherit own', '<defs><rect id="r" fill="green" width="5" height="5"/></defs><use xlink:href="#r" fill="red" stroke="blue"/>')
t('stroke width reify', R % 'stroke="red" stroke-width="2" transform="scale(2,8)"')
t('stroke width nonscaling', '<svg viewBox="0 0 50 50" width="100" height="100">' + R % 'stroke="red" stroke-width="2" transform="scale(3)" vector-effect="non-scaling-stroke"' + R % 'stroke="red" stroke-width="2" transform="scale(3)"' + '</svg>')
t('stroke width neg det', R % 'stroke="red" stroke-width="2" transform="scale(-2,8)"')
t('display none', '<g display="none">' + R % '' + '</g>' + R % 'style="display:none"' + R % 'display="inline"')
t('style display rule', '<style>.h{display:none}</style>' + R % 'class="h"' + R % '')
t('multiple classes', '<style>.a{fill:red} .b{stroke:blue}</style>' + R % 'class="a b"')
t('class multiple spaces', '<style>.a{fill:red} .b{stroke:blue}</style>' + R % 'class="a  b"')
t('style important ws', R % 'style=" fill : red ; stroke:blue;"')
t('fill none', R % 'fill="none" stroke="none"')
t('uppercase', R % 'fill="RED" stroke="Blue"')
t('stroke-width units', R % 'stroke="red" stroke-width="1mm"')
t('default', R % '')
