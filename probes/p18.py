from svgelements import *
import io
def t(label, f):
    try:
        print(label, '->', f())
    except Exception as e:
        print(label, 'EXC', type(e).__name__, e)
r = Rect(0,0,10,6, stroke='red', stroke_width=2) * 'scale(2,3)'
t('stroke bbox T', lambda: (r.bbox(), r.bbox(with_stroke=True), r.bbox(transformed=False, with_stroke=True)))
r2 = Rect(0,0,10,6, stroke_width=2)
t('no stroke painted', lambda: (r2.stroke, r2.bbox(with_stroke=True)))
r3 = Rect(0,0,10,6, stroke='none', stroke_width=2)
t('stroke none', lambda: (r3.bbox(with_stroke=True)))
g = Group(); g.append(Rect(0,0,1,1)); g2 = Group(); g2.append(Circle(10,10,2)); g.append(g2)
t('group bbox', lambda: (g.bbox(), Group().bbox()))
p = Path('M 100,100 M 0,0 L 1,1'); t('lone move bbox', lambda: p.bbox())
t('path with transform bbox', lambda: (Path('M0,0 Q 5,10 10,0', transform='rotate(90)').bbox(), Path('M0,0 Q 5,10 10,0', transform='rotate(90)').bbox(transformed=False)))
t('subpath bbox', lambda: (Path('M0,0 L 1,1 M 5,5 L 6,7', transform='scale(2)').subpath(1).bbox(), Path('M0,0 L 1,1 M 5,5 L 6,7', transform='scale(2)').subpath(1).bbox(transformed=False)))
a = Arc(start=(10,0), end=(10,0), center=(0,0), sweep=7.5)  # beyond full turn
t('arc >tau', lambda: (a.bbox(), a.length()))
a2 = Arc(start=(10,0), center=(0,0), sweep=3.0)
t('arc center form', lambda: (repr(a2), a2.bbox()))
doc = '''<svg xmlns="http://www.w3.org/2000/svg" xmlns:xlink="http://www.w3.org/1999/xlink" width="200" height="100" viewBox="0 0 100 50">
<defs><g id="grp"><rect width="2" height="2"/><circle r="1"/></g></defs>
<g transform="translate(10,0)"><use xlink:href="#grp" x="5" y="5" transform="scale(2)"/><use xlink:href="#u2"/></g>
<use id="u2" xlink:href="#grp" transform="rotate(90)"/>
<line x2="50%" y2="50%"/>
</svg>'''
for reify in (True, False):
    t('doc reify=%s' % reify, lambda: [abs(Path(e)).d() for e in SVG.parse(io.StringIO(doc), reify=reify, transform='translate(1000,0)').elements() if isinstance(e, Shape)])
t('doc width len', lambda: [repr(e) for e in SVG.parse(io.StringIO('<svg xmlns="http://www.w3.org/2000/svg" width="100%" height="100%" viewBox="0 0 10 10"><rect width="100%" height="1"/></svg>'), width="2in", height=500, ppi=100).elements()])
