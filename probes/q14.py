"""Prototype (throw-away) of the C14 cascade reference evaluator + generator.
usage: q14.py SEED NCASES
"""
import os; os.makedirs("/tmp/probe", exist_ok=True)
import io
import math
import random
import re
import sys
import xml.etree.ElementTree as ET
from collections import Counter

from svgelements import SVG, Shape, Color

R = random.Random(int(sys.argv[1]) if len(sys.argv) > 1 else 0)
N = int(sys.argv[2]) if len(sys.argv) > 2 else 300
XL = "http://www.w3.org/1999/xlink"
COLORS = ["red", "blue", "#0f0", "#123456", "rgb(10,20,30)", "none", "currentColor", "yellow", "PURPLE"]
PROPS = ["fill", "stroke", "stroke-width", "fill-opacity", "stroke-opacity", "color"]
INHERITED = set(PROPS)


def val(prop):
    if prop in ("fill", "stroke"): return R.choice(COLORS)
    if prop == "color": return R.choice(["red", "blue", "#0f0", "lime", "#abcdef"])
    if prop == "stroke-width": return R.choice(["2", "0.5", "3px", "4"])
    return R.choice(["0.5", "0.25", "1", "0"])


IDC = [0]


def gen():
    IDC[0] = 0
    root = ET.Element("svg", {"xmlns": "http://www.w3.org/2000/svg", "xmlns:xlink": XL, "width": "100", "height": "100"})
    rules = []  # (selector text, {prop: value})
    classes = ["a", "b", "c"]

    def paint(el, tag):
        IDC[0] += 1
        el.set("id", "n%d" % IDC[0])
        if R.random() < 0.6:
            el.set("class", " ".join(R.sample(classes, R.randint(1, 2))))
        for prop in PROPS:
            if R.random() < 0.25: el.set(prop, val(prop))
        if R.random() < 0.3:
            decl = ";".join("%s:%s" % (p, val(p)) for p in R.sample(PROPS, R.randint(1, 2)))
            el.set("style", decl + (";" if R.random() < 0.5 else ""))
        # rules targeting this element
        for _ in range(R.randint(0, 2)):
            kind = R.choice(["*", "type", "class", "typeclass", "id"])
            cls = (el.get("class") or "a").split()[0]
            sel = {"*": "*", "type": tag, "class": "." + cls, "typeclass": "%s.%s" % (tag, cls), "id": "#" + el.get("id")}[kind]
            rules.append((sel, {p: val(p) for p in R.sample(PROPS, R.randint(1, 2))}))

    def shape():
        tag = R.choice(["rect", "circle", "path"])
        el = ET.Element(tag)
        if tag == "rect": el.set("width", "5"); el.set("height", "5")
        elif tag == "circle": el.set("r", "3")
        else: el.set("d", "M0,0 L5,5")
        if R.random() < 0.3:
            el.set("transform", R.choice(["scale(2)", "scale(2,8)", "scale(-3,3)", "rotate(30) scale(0.5)", "translate(3,4)"]))
        paint(el, tag)
        return el

    def group(depth):
        g = ET.Element("g")
        if R.random() < 0.3: g.set("transform", R.choice(["scale(2)", "scale(1,4)", "rotate(45)"]))
        paint(g, "g")
        for _ in range(R.randint(1, 3)):
            g.append(group(depth - 1) if depth > 0 and R.random() < 0.4 else shape())
        return g

    style = ET.SubElement(root, "style")
    defs = ET.SubElement(root, "defs")
    d1 = shape(); defs.append(d1)
    for _ in range(R.randint(1, 3)):
        root.append(group(2) if R.random() < 0.7 else shape())
    if R.random() < 0.6:
        u = ET.SubElement(root, "use", {"{%s}href" % XL: "#" + d1.get("id")})
        paint(u, "use")
    R.shuffle(rules)
    txt = []
    for sel, decl in rules:
        body = ";".join("%s:%s" % kv for kv in decl.items()) + (";" if R.random() < 0.5 else "")
        if R.random() < 0.15: txt.append("/* %s{fill:pink} */" % sel)
        if R.random() < 0.15: sel = "nomatch, " + sel
        txt.append("%s {%s}" % (sel, body))
    style.text = "\n".join(txt)
    return ET.tostring(root, encoding="unicode"), rules


def strip(t): return t.split("}")[1] if "}" in t else t


def spec(sel):
    if sel.startswith("#"): return (1, 0, 0)
    if sel == "*": return (0, 0, 0)
    if sel.startswith("."): return (0, 1, 0)
    if "." in sel: return (0, 1, 1)
    return (0, 0, 1)


def matches(sel, el, tag):
    if sel == "*": return True
    if sel.startswith("#"): return el.get("id") == sel[1:]
    classes = (el.get("class") or "").split()
    if sel.startswith("."): return sel[1:] in classes
    if "." in sel:
        t, c = sel.split("."); return t == tag and c in classes
    return sel == tag


def evaluate(text, caller_color="black"):
    root = ET.fromstring(text)
    style_el = [e for e in root.iter() if strip(e.tag) == "style"][0]
    css = re.sub(r"/\*.*?\*/", "", style_el.text or "", flags=re.S)
    rules = []
    for order, (sels, body) in enumerate(re.findall(r"([^{}]+)\{([^}]*)\}", css)):
        decl = {}
        for d in body.split(";"):
            if ":" in d:
                k, v = d.split(":", 1); decl[k.strip()] = v.strip()
        for sel in sels.split(","):
            rules.append((sel.strip(), order, decl))
    ids = {e.get("id"): e for e in root.iter() if e.get("id")}
    out = []

    def own(el, tag):
        """specified values by cascade for this element"""
        v = {}
        for p in PROPS:
            if el.get(p) is not None: v[p] = el.get(p)
        for sel, order, decl in sorted([r for r in rules if matches(r[0], el, tag)], key=lambda r: (spec(r[0]), r[1])):
            v.update({k: x for k, x in decl.items() if k in PROPS})
        for d in (el.get("style") or "").split(";"):
            if ":" in d:
                k, x = d.split(":", 1)
                if k.strip() in PROPS: v[k.strip()] = x.strip()
        return v

    def det(s):
        M = (1, 0, 0, 1)
        for name, args in re.findall(r"([a-z]+)\(([^)]*)\)", s or ""):
            a = [float(x) for x in re.findall(r"-?[\d.]+", args)]
            if name == "scale": m = (a[0], 0, 0, a[1] if len(a) > 1 else a[0])
            elif name == "rotate": r = math.radians(a[0]); m = (math.cos(r), math.sin(r), -math.sin(r), math.cos(r))
            else: m = (1, 0, 0, 1)
            M = (M[0] * m[0] + M[2] * m[1], M[1] * m[0] + M[3] * m[1], M[0] * m[2] + M[2] * m[3], M[1] * m[2] + M[3] * m[3])
        return M[0] * M[3] - M[1] * M[2]

    def walk(el, inh, D):
        tag = strip(el.tag)
        if tag in ("style", "defs"): return
        v = dict(inh)
        o = own(el, tag)
        color = o.get("color", inh["color"])
        for k, x in o.items():
            if k in ("fill", "stroke") and x == "currentColor": x = color
            v[k] = x
        D = D * det(el.get("transform"))
        if tag in ("g", "svg"):
            for c in el: walk(c, v, D)
        elif tag == "use":
            ref = el.get("{%s}href" % XL)
            if ref and ref[1:] in ids: walk(ids[ref[1:]], v, D)
        else:
            def col(name, op):
                c = v[name]
                if c == "none": return None
                cc = Color(c)  # value parsing is C13's business; here only the cascade is under test
                a = max(0.0, min(1.0, float(v.get(op, "1"))))
                return (cc.red, cc.green, cc.blue, int(round(a * 255)))
            sw = float(re.match(r"[\d.]+", v["stroke-width"]).group()) * math.sqrt(abs(D))
            out.append((el.get("id"), col("fill", "fill-opacity"), col("stroke", "stroke-opacity"), sw))

    walk(root, {"fill": "black", "stroke": "none", "stroke-width": "1", "color": caller_color}, 1.0)
    return out


def observe(text):
    res = []
    for e in SVG.parse(io.StringIO(text)).elements():
        if isinstance(e, Shape):
            def c(x): return None if x is None or x.value is None else (x.red, x.green, x.blue, x.alpha)
            res.append((e.id, c(e.fill), c(e.stroke), e.implicit_stroke_width))
    return res


keys = Counter(); shown = Counter()
for it in range(N):
    text, rules = gen()
    exp = evaluate(text)
    try:
        got = observe(text)
    except Exception as ex:
        keys[("EXC", type(ex).__name__)] += 1; continue
    if [e[0] for e in exp] != [g[0] for g in got]:
        keys[("order",)] += 1; continue
    bad = None
    for e, g in zip(exp, got):
        for name, a, b in (("fill", e[1], g[1]), ("stroke", e[2], g[2])):
            if (a is None) != (b is None) or (a is not None and (a[:3] != b[:3] or abs(a[3] - b[3]) > 1)):
                bad = (name, e[0], a, b); break
        if bad: break
        if abs(e[3] - g[3]) > 1e-9 * max(1, e[3]):
            bad = ("stroke-width", e[0], e[3], g[3]); break
    if bad:
        # document-level mechanism features
        rootx = ET.fromstring(text)
        fa = fb = fc = False
        cssx = re.sub(r"/\*.*?\*/", "", [x for x in rootx.iter() if strip(x.tag) == "style"][0].text or "", flags=re.S)
        parsed = []
        for order, (sels, body) in enumerate(re.findall(r"([^{}]+)\{([^}]*)\}", cssx)):
            props = set(d.split(":")[0].strip() for d in body.split(";") if ":" in d)
            for sel in sels.split(","): parsed.append((sel.strip(), order, props, body.strip()))
        for elx in rootx.iter():
            tg = strip(elx.tag)
            m = [r for r in parsed if matches(r[0], elx, tg)]
            for i1 in range(len(m)):
                for i2 in range(len(m)):
                    r1, r2 = m[i1], m[i2]
                    if not (r1[2] & r2[2]) or r1[0] == r2[0]: continue
                    s1, s2 = spec(r1[0]), spec(r2[0])
                    if s1[0] == 1 and s2[0] == 0 and s2[1] == 1: fa = True
                    if s1 == s2: fc = True
            stars = [r for r in m if r[0] == "*"]
            if stars and any(spec(r[0]) == (0, 0, 1) for r in m) and not stars[-1][3].endswith(";"): fb = True
        feats = "".join(c for c, f in (("A", fa), ("B", fb), ("C", fc)) if f)
        keys[("feat", feats)] += 1
        if not feats:
            open("/tmp/probe/ex_nofeat_%d.svg" % it, "w").write(text); print("NOFEAT", it, bad)
        # classify: which source kinds compete for that property on that element or its ancestors?
        root = ET.fromstring(text)
        el = [x for x in root.iter() if x.get("id") == bad[1]][0]
        kinds = set()
        css = [x for x in root.iter() if strip(x.tag) == "style"][0].text
        for sel, decl in rules:
            if matches(sel, el, strip(el.tag)): kinds.add({(1, 0, 0): "id", (0, 0, 0): "*", (0, 1, 0): "class", (0, 1, 1): "typeclass", (0, 0, 1): "type"}[spec(sel)])
        k = (bad[0], ",".join(sorted(kinds)))
        keys[k] += 1
        if shown[k] < 1 and len(kinds) <= 1:
            shown[k] += 1; print("----", k, bad); open("/tmp/probe/ex_%s_%s.svg" % (k[0], k[1].replace("*","star").replace(",","_") or "none"), "w").write(text)
    else:
        keys[("ok",)] += 1
for k, v in sorted(keys.items(), key=lambda kv: -kv[1]): print(v, k)
