"""Prototype (throw-away): C20 write -> parse round trip on q3's documents. usage: q20.py SEED N"""
import os; os.makedirs("/tmp/probe", exist_ok=True)
import io, math, sys
import xml.etree.ElementTree as ET
from collections import Counter
import q3
from svgelements import SVG, Shape, Path, Move, Rect, Circle, Ellipse, SimpleLine, Polyline, Polygon, Use

q3.seed(int(sys.argv[1])); N = int(sys.argv[2])

def snap(doc):
    out = []
    for e in doc.elements():
        if isinstance(e, Shape):
            p = abs(Path(e))
            pts = []
            for s in p:
                if isinstance(s, Move): pts.append(tuple(s.end))
                else: pts += [tuple(s.point(i / 4)) for i in range(5)]
            c = lambda x: None if x is None or x.value is None else (x.red, x.green, x.blue, x.alpha)
            out.append((type(e).__name__, e.id, [type(s).__name__ for s in p], pts, c(e.fill), c(e.stroke), e.implicit_stroke_width))
    return out

keys = Counter(); shown = Counter()
for it in range(N):
    feat = {"skew": q3.R.random() < 0.3, "shape_transform": 0.5, "nested_xy": 0.0}
    text = q3.gen_doc(feat)
    for reify in (True, False):
        try:
            d1 = SVG.parse(io.StringIO(text), reify=reify)
            x1 = d1.string_xml()
        except Exception as e:
            keys[("write EXC", type(e).__name__)] += 1; continue
        try:
            ET.fromstring(x1)
        except Exception as e:
            keys[("not well-formed",)] += 1; continue
        try:
            d2 = SVG.parse(io.StringIO(x1), reify=reify)
        except Exception as e:
            keys[("reparse EXC", type(e).__name__)] += 1; continue
        a, b = snap(d1), snap(d2)
        if len(a) != len(b):
            keys[("count",)] += 1; continue
        bad = None
        for u, v in zip(a, b):
            if u[1] != v[1]: bad = ("id",); break
            if u[2] != v[2]: bad = ("kinds", u[0]); break
            S = max([1.0] + [abs(c) for p in u[3] for c in p])
            if any(math.hypot(p[0] - q[0], p[1] - q[1]) > 1e-4 * S for p, q in zip(u[3], v[3])):
                # mechanism features from the first-generation object
                e1 = [e for e in d1.elements() if isinstance(e, Shape)][a.index(u)]
                f = []
                if isinstance(e1, Rect) and (e1.x == 0 or e1.y == 0): f.append("rect-zero-xy")
                if isinstance(e1, SimpleLine) and 0 in (e1.x1, e1.y1, e1.x2, e1.y2): f.append("line-zero-coord")
                if isinstance(e1, Circle) and e1.rx != e1.ry: f.append("circle-rx!=ry")
                if isinstance(e1, (Circle, Ellipse)) and (e1.cx == 0 or e1.cy == 0): f.append("round-zero-center")
                if isinstance(e1, Rect) and (e1.width < 0 or e1.height < 0): f.append("rect-negative-size")
                par = [g for g in d1.elements() if isinstance(g, Use) and any(c is e1 for c in g.select())]
                if par: f.append("under-use")
                nest = [g for g in d1.elements() if isinstance(g, SVG) and g is not d1 and any(c is e1 for c in g.select())]
                if nest: f.append("under-nested-svg")
                bad = ("geometry", u[0], ",".join(f)); break
            if u[4] != v[4] or u[5] != v[5]: bad = ("paint", u[0]); break
            if abs(u[6] - v[6]) > 1e-4 * max(1, abs(u[6])): bad = ("stroke-width", u[0]); break
        if bad:
            k = bad + ("reify=%s" % reify,)
            keys[k] += 1
            if shown[k] < 1 and (len(bad) < 3 or bad[2] == ""):
                shown[k] += 1; open("/tmp/probe/ex20_%d_%s.svg" % (it, reify), "w").write(text + "\n<!-- -->\n" + x1); print("EX", k, it)
        else:
            keys[("ok", "reify=%s" % reify)] += 1
for k, v in sorted(keys.items(), key=lambda kv: -kv[1]): print(v, k)
