import random, math, sys
from svgelements import *
R=random.Random(int(sys.argv[1]))
def extrema_1d(a):  # exact-ish extrema of cubic bezier coordinate via robust quadratic of derivative
    p0,p1,p2,p3=a
    # derivative coefficients: 3[(p1-p0)(1-t)^2 + 2(p2-p1)(1-t)t + (p3-p2)t^2]
    d0,d1,d2=p1-p0,p2-p1,p3-p2
    A=d0-2*d1+d2; B=2*(d1-d0); C=d0
    ts=[0.0,1.0]
    if A==0:
        if B!=0: ts.append(-C/B)
    else:
        disc=B*B-4*A*C
        if disc>=0:
            sq=math.sqrt(disc)
            q=-0.5*(B+math.copysign(sq,B)) if B!=0 else None
            if q is None:
                r=math.sqrt(-C/A) if -C/A>=0 else None
                if r is not None: ts+= [r,-r]
            else:
                ts.append(q/A)
                if q!=0: ts.append(C/q)
    def val(t): 
        n=1-t; return n*n*n*p0+3*n*n*t*p1+3*n*t*t*p2+t*t*t*p3
    vs=[val(t) for t in ts if 0<=t<=1]
    return min(vs),max(vs)
from collections import Counter
worst=Counter()
for it in range(int(sys.argv[2])):
    scale=10**R.uniform(-3,5)
    mode=R.choice(['gen','nearlin','axisdeg','dbl','thresh'])
    def c(): return R.choice([0.0, R.uniform(-1,1), float(R.randint(-3,3))/3])*scale
    P=[[c(),c()] for _ in range(4)]
    if mode=='nearlin':
        # make x nearly quadratic: set p3 so that cubic coefficient tiny
        eps=10**R.uniform(-12,-5)*R.choice([-1,1])
        P[3][0]=P[0][0]-3*P[1][0]+3*P[2][0]-eps   # denom = p0-3p1+3p2-p3 = eps
    if mode=='thresh':
        eps=R.choice([0.9e-8,1e-8,1.1e-8,5e-9,2e-8])*R.choice([-1,1])
        P[3][0]=P[0][0]-3*P[1][0]+3*P[2][0]-eps
    if mode=='axisdeg':
        for p in P: p[1]=P[0][1]
    if mode=='dbl':
        P[2]=list(P[1])
    s=CubicBezier(*[tuple(p) for p in P])
    bb=s.bbox()
    ex=extrema_1d([p[0] for p in P]); ey=extrema_1d([p[1] for p in P])
    size=max(ex[1]-ex[0],ey[1]-ey[0],1e-300)
    S=max(abs(v) for p in P for v in p) or 1
    dev=max(abs(bb[0]-ex[0]),abs(bb[2]-ex[1]),abs(bb[1]-ey[0]),abs(bb[3]-ey[1]))
    key=(mode, 'scale<1' if scale<1 else 'scale<1e3' if scale<1e3 else 'big')
    r=dev/(1e-9*size+1e-12*S)
    if r>worst[key]:
        worst[key]=r
        if r>1: print(key,r,dev,size,S,repr(s),bb,ex,ey)
for k,v in sorted(worst.items()): print(k,v)
