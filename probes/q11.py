import random, math, sys
from svgelements import *
R=random.Random(1)
def ref(ex,ey,ew,eh,vx,vy,vw,vh,align,mos):
    sx=ew/vw; sy=eh/vh
    if align!='none':
        if mos=='meet': sx=sy=min(sx,sy)
        else: sx=sy=max(sx,sy)
    tx=ex-vx*sx; ty=ey-vy*sy
    if 'xMid' in align: tx+=(ew-vw*sx)/2
    if 'xMax' in align: tx+=(ew-vw*sx)
    if 'YMid' in align: ty+=(eh-vh*sy)/2
    if 'YMax' in align: ty+=(eh-vh*sy)
    return sx,sy,tx,ty
aligns=['none']+['x%sY%s'%(a,b) for a in ('Min','Mid','Max') for b in ('Min','Mid','Max')]
worst=0; n=0; bad=0
for it in range(3000):
    ew=10**R.uniform(-3,3); eh=10**R.uniform(-3,3); vw=10**R.uniform(-3,3); vh=10**R.uniform(-3,3)
    ex,ey,vx,vy=[R.choice([0,R.uniform(-100,100),-3.5]) for _ in range(4)]
    for al in aligns:
        for mos in (None,'meet','slice'):
            par = al if mos is None else al+' '+mos
            s=Viewbox.viewbox_transform(ex,ey,ew,eh,vx,vy,vw,vh,par)
            M=Matrix(s)
            sx,sy,tx,ty=ref(ex,ey,ew,eh,vx,vy,vw,vh,al,mos or 'meet')
            n+=1
            # compare mapped viewbox corners
            for (px,py) in ((vx,vy),(vx+vw,vy+vh)):
                q=Point(px,py)*M; r=(px*sx+tx, py*sy+ty)
                tol = 1e-12*(abs(px)+abs(py)+1)*2 + 1e-9*max(abs(r[0]),abs(r[1]),ew,eh) + 2e-12
                d=max(abs(q.x-r[0]),abs(q.y-r[1]))
                if d>tol:
                    bad+=1
                    if bad<5: print('BAD',par,s,d,tol,(ex,ey,ew,eh,vx,vy,vw,vh))
                worst=max(worst,d/tol)
    # absent
print(n,bad,worst)
print(repr(Viewbox.viewbox_transform(0,0,10,10,0,0,10,10,None)), repr(Viewbox.viewbox_transform(0,0,10,10,0,0,10,None,None)))
