#!/usr/bin/env python3
"""known_findings.json maintenance (never used at check run time).

  tools/kf.py fixed  C01 <key> <commit> "<what failed>"
  tools/kf.py known  C15 <key> "<what fails>" ["<witness>"]
  tools/kf.py lines                      # normalise the literal 'line' fields
"""
import json
import os
import sys

P = os.path.join(os.path.dirname(os.path.dirname(os.path.abspath(__file__))), "known_findings.json")
d = json.load(open(P))


def norm():
    for e in d["findings"]:
        if e["status"] == "fixed":
            e["line"] = "fixed: property=%s %s %s" % (e["property"], e["commit"], e["what"])
        else:
            e["line"] = "KNOWN-FINDING: property=%s %s" % (e["property"], e["what"])
    d["findings"].sort(key=lambda e: (e["property"], e["status"], e["key"]))


a = sys.argv[1:]
if a[0] == "fixed":
    d["findings"] = [e for e in d["findings"] if not (e["property"] == a[1] and e["key"] == a[2])]
    d["findings"].append({"property": a[1], "key": a[2], "status": "fixed", "commit": a[3], "what": a[4]})
elif a[0] == "known":
    d["findings"] = [e for e in d["findings"] if not (e["property"] == a[1] and e["key"] == a[2])]
    e = {"property": a[1], "key": a[2], "status": "known", "what": a[3]}
    if len(a) > 4:
        e["witness"] = a[4]
    d["findings"].append(e)
norm()
json.dump(d, open(P, "w"), indent=1)
print(len(d["findings"]), "entries")
