#!/usr/bin/env python3
"""Put a header and a summary on selftest/RESULTS.md (rows are appended by selftest/run.py --write)."""
import os
import re

p = os.path.join(os.path.dirname(os.path.dirname(os.path.abspath(__file__))), "selftest", "RESULTS.md")
rows = [l.rstrip("\n") for l in open(p) if l.startswith("| ") and not l.startswith("| mutant |") and not l.startswith("|---")]
seen = {}
for r in rows:
    seen[r.split("|")[1].strip()] = r  # the last run of a mutant wins
rows = list(seen.values())
caught = [r for r in rows if "CAUGHT" in r]
missed = [r for r in rows if "CAUGHT" not in r]
tests_pass = [r for r in rows if "| pass |" in r]
head = [
    "# Self-test: hand-written breaking edits vs the checks (quick tier, seed 0)",
    "",
    "Each mutant of `selftest/mutants.py` is applied to a scratch copy of /repo under /tmp (removed afterwards), the checks named in its `props`",
    "run against the copy (`RTMON_TARGET`), and the repository's own suite runs on it as well (`tests` column: `pass` = the 404 baseline tests still",
    "pass, i.e. the change is invisible to the suite; `FAIL: ...` names the first test that notices it).",
    "",
    "%d mutants: %d caught by at least one of their checks, %d missed; %d of them leave the repository's suite green." % (len(rows), len(caught), len(missed), len(tests_pass)),
    "",
    "| mutant | props | tests | checks (exit code 1 = CAUGHT) with the first keys | what |",
    "|---|---|---|---|---|",
]
open(p, "w").write("\n".join(head + rows) + "\n")
print(len(rows), "rows,", len(missed), "missed:", [r.split("|")[1].strip() for r in missed])
