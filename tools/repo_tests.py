#!/venv/bin/python
"""Run the repository's own suite (hooks off) in parallel and compare with BASELINE.json.

usage: tools/repo_tests.py [target_dir]      (default /repo)
exit 0 when every test of BASELINE.stable_pass still passes.
"""
import json
import os
import subprocess
import sys
import tempfile
import xml.etree.ElementTree as ET

target = sys.argv[1] if len(sys.argv) > 1 else "/repo"
base = json.load(open("/root/.vp/BASELINE.json"))
want = set(base["stable_pass"])
with tempfile.TemporaryDirectory() as d:
    x = os.path.join(d, "j.xml")
    env = dict(os.environ)
    env.pop("SVGELEMENTS_VERIF", None)
    env["PYTHONDONTWRITEBYTECODE"] = "1"
    subprocess.run(["/venv/bin/python", "-m", "pytest", "-q", "-p", "no:cacheprovider", "-n", "14", "--timeout=900",
                    "--continue-on-collection-errors", "--junitxml=" + x], cwd=target, env=env, stdout=subprocess.DEVNULL, stderr=subprocess.DEVNULL)
    passed = set()
    for tc in ET.parse(x).getroot().iter("testcase"):
        if not any(ch.tag in ("failure", "error", "skipped") for ch in tc):
            passed.add("%s::%s" % (tc.get("classname"), tc.get("name")))
missing = sorted(want - passed)
print("baseline stable_pass=%d, still passing=%d, newly passing=%d" % (len(want), len(want & passed), len(passed - want)))
for m in missing:
    print("  NO LONGER PASSING:", m)
for m in sorted(passed - want):
    print("  newly passing:", m)
sys.exit(1 if missing else 0)
