#!/bin/sh
# usage: tools/sweep.sh TIER SEED [IDS...]   - runs the checks one after the other, one line per check in logs/sweep-TIER-SEED.log
tier=$1; seed=$2; shift 2
ids="$*"; [ -z "$ids" ] && ids="C01 C02 C03 C04 C05 C06 C07 C08 C09 C10 C11 C12 C13 C14 C15 C16 C17 C18 C19 C20"
cd "$(dirname "$0")/.."
mkdir -p logs
for i in $ids; do
  ./check $i --tier $tier --seed $seed > logs/$i-$tier-$seed.out 2>&1
  echo "$i exit=$? $(grep "^$i " logs/$i-$tier-$seed.out | tail -1)" >> logs/sweep-$tier-$seed.log
done
echo done >> logs/sweep-$tier-$seed.log
