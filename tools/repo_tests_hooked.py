#!/venv/bin/python
"""Run the repository's own suite with the cross-cutting hooks ON (SVGELEMENTS_VERIF=1) and report what the hooks saw.

usage: tools/repo_tests_hooked.py [target_dir]     (default /repo)
The suite's pass/fail set must be the baseline's (a hook never raises); hook events are printed per mechanism with the tests
in which they fired.  exit 0: suite unchanged and no hook event; 1: a hook fired or the suite changed.
"""
import json
import os
import shutil
import subprocess
import sys
import tempfile
import xml.etree.ElementTree as ET

ROOT = os.path.dirname(os.path.dirname(os.path.abspath(__file__)))
target = sys.argv[1] if len(sys.argv) > 1 else "/repo"
base = json.load(open("/root/.vp/BASELINE.json"))
want = set(base["stable_pass"])
d = tempfile.mkdtemp(prefix="rtmon-hooked-")
try:
    x = os.path.join(d, "j.xml")
    env = dict(os.environ, SVGELEMENTS_VERIF="1", PYTHONDONTWRITEBYTECODE="1", RTMON_HOOK_OUT=os.path.join(d, "hooks"), RTMON_TARGET=target)
    env["PYTHONPATH"] = ROOT + os.pathsep + target
    subprocess.run(["/venv/bin/python", "-m", "pytest", "-q", "-p", "no:cacheprovider", "-p", "rtmon.pytest_hooks", "-n", "14", "--timeout=900",
                    "--continue-on-collection-errors", "--junitxml=" + x], cwd=target, env=env, stdout=subprocess.DEVNULL, stderr=subprocess.DEVNULL)
    passed = set()
    for tc in ET.parse(x).getroot().iter("testcase"):
        if not any(ch.tag in ("failure", "error", "skipped") for ch in tc):
            passed.add("%s::%s" % (tc.get("classname"), tc.get("name")))
    evals, events, tests, errors = {}, {}, {}, {}
    hd = os.path.join(d, "hooks")
    for f in (os.listdir(hd) if os.path.isdir(hd) else []):
        w = json.load(open(os.path.join(hd, f)))
        for k, v in w["monitor_evaluations"].items():
            evals[k] = evals.get(k, 0) + v
        for k, v in w.get("monitor_errors", {}).items():
            errors[k] = errors.get(k, 0) + v
        for k, v in w["events"].items():
            e = events.setdefault(k, {"count": 0, "first": v["first"]})
            e["count"] += v["count"]
        for t, ks in w["tests_with_events"].items():
            tests[t] = ks
finally:
    shutil.rmtree(d, ignore_errors=True)
missing = sorted(want - passed)
print("hooks ON: baseline stable_pass=%d, still passing=%d" % (len(want), len(want & passed)))
for m in missing:
    print("  NO LONGER PASSING:", m)
print("hook evaluations:", json.dumps(evals, sort_keys=True))
if errors:
    print("monitor errors:", json.dumps(errors, sort_keys=True))
for k, v in sorted(events.items()):
    print("HOOK EVENT %s x%d: %s" % (k, v["count"], v["first"][:300]))
for t, ks in sorted(tests.items()):
    print("  in test", t, ks)
if not evals:
    print("INCONCLUSIVE: no hook was evaluated")
    sys.exit(2)
sys.exit(1 if (missing or events) else 0)
