#!/venv/bin/python
"""Confirm and keep a seeded defect produced by an independent sub-agent, and run our checks against it.

  tools/seeded.py import <src dir with patch.diff demo.py notes.md> <seed id> <property> [--needs "..."]
      - confirms in a fresh scratch worktree of /repo HEAD: patch applies, repository suite unchanged (404 pass),
        demo FAILS with the patch and PASSES without; then stores /verif/seeded/<seed id>/ (patch.diff, demo.py, meta.json)
  tools/seeded.py run <seed id>|all [--tier quick] [--props C01,C02]
      - git -C /repo apply, run the checks, git -C /repo checkout -- . ; records outcome in seeded/<id>/meta.json
"""
import argparse
import json
import os
import shutil
import subprocess
import sys

ROOT = os.path.dirname(os.path.dirname(os.path.abspath(__file__)))
SEEDED = os.path.join(ROOT, "seeded")


def sh(cmd, **kw):
    return subprocess.run(cmd, capture_output=True, text=True, **kw)


def run_demo(wt, demo):
    shutil.copy(demo, os.path.join(wt, "demo.py"))
    env = dict(os.environ, PYTHONDONTWRITEBYTECODE="1", PYTHONPATH=wt)
    r = sh(["/venv/bin/python", "demo.py"], cwd=wt, env=env, timeout=900)
    os.remove(os.path.join(wt, "demo.py"))
    return r.returncode, (r.stdout + r.stderr).strip().splitlines()[-3:]


def cmd_import(a):
    src = a.src
    sid = a.id
    wt = "/tmp/seedchk-%s" % sid
    sh(["git", "-C", "/repo", "worktree", "remove", "--force", wt])
    r = sh(["git", "-C", "/repo", "worktree", "add", "--detach", wt, "HEAD"])
    assert r.returncode == 0, r.stderr
    meta = {"id": sid, "property": a.prop, "needs": a.needs or "", "source": "independent sub-agent (saw only the property text)", "ran": []}
    try:
        rc0, out0 = run_demo(wt, os.path.join(src, "demo.py"))
        meta["ran"].append({"what": "demo on unchanged tree", "exit": rc0, "tail": out0})
        r = sh(["git", "apply", "--3way", os.path.join(src, "patch.diff")], cwd=wt)
        if r.returncode != 0:
            r = sh(["git", "apply", os.path.join(src, "patch.diff")], cwd=wt)
        meta["ran"].append({"what": "git apply patch.diff on /repo HEAD", "exit": r.returncode, "err": r.stderr[-300:]})
        if r.returncode != 0:
            print("PATCH DOES NOT APPLY", r.stderr)
            return 1
        rc1, out1 = run_demo(wt, os.path.join(src, "demo.py"))
        meta["ran"].append({"what": "demo with the change", "exit": rc1, "tail": out1})
        t = sh([os.path.join(ROOT, "tools", "repo_tests.py"), wt])
        meta["ran"].append({"what": "repository suite with the change (tools/repo_tests.py)", "exit": t.returncode, "tail": t.stdout.strip().splitlines()[-2:]})
        diff = sh(["git", "diff", "HEAD"], cwd=wt).stdout
        assert diff.strip(), "empty diff"
        ok = rc0 == 0 and rc1 != 0 and t.returncode == 0
        meta["confirmed"] = ok
        print("unchanged demo exit=%s, changed demo exit=%s, tests exit=%s -> %s" % (rc0, rc1, t.returncode, "CONFIRMED" if ok else "REJECTED"))
        if ok:
            d = os.path.join(SEEDED, sid)
            os.makedirs(d, exist_ok=True)
            open(os.path.join(d, "patch.diff"), "w").write(diff)
            shutil.copy(os.path.join(src, "demo.py"), os.path.join(d, "demo.py"))
            if os.path.exists(os.path.join(src, "notes.md")):
                shutil.copy(os.path.join(src, "notes.md"), os.path.join(d, "notes.md"))
            json.dump(meta, open(os.path.join(d, "meta.json"), "w"), indent=1)
        return 0 if ok else 1
    finally:
        sh(["git", "-C", "/repo", "worktree", "remove", "--force", wt])
        shutil.rmtree(wt, ignore_errors=True)


def cmd_run(a):
    ids = sorted(os.listdir(SEEDED)) if a.id == "all" else [a.id]
    for sid in ids:
        d = os.path.join(SEEDED, sid)
        if not os.path.exists(os.path.join(d, "meta.json")):
            continue
        meta = json.load(open(os.path.join(d, "meta.json")))
        props = a.props.split(",") if a.props else [meta["property"]]
        copy = None
        if a.copy:
            # a scratch copy under /tmp (used while something else is running from /repo); removed afterwards
            copy = "/tmp/rtmon-seed-%s" % sid
            shutil.rmtree(copy, ignore_errors=True)
            os.makedirs(copy)
            shutil.copytree("/repo/svgelements", os.path.join(copy, "svgelements"))
            r = sh(["patch", "-p1", "-s", "-i", os.path.join(d, "patch.diff")], cwd=copy)
        else:
            st = sh(["git", "-C", "/repo", "status", "--porcelain", "--untracked-files=no"]).stdout.strip()
            assert not st, "/repo is dirty: " + st
            r = sh(["git", "-C", "/repo", "apply", os.path.join(d, "patch.diff")])
        if r.returncode != 0:
            print(sid, "patch does not apply to /repo:", (r.stderr or r.stdout)[:200])
            if copy:
                shutil.rmtree(copy, ignore_errors=True)
            continue
        try:
            res = {}
            for pid in props:
                env = dict(os.environ, RTMON_NO_EVIDENCE="1")
                if copy:
                    env["RTMON_TARGET"] = copy
                c = sh([os.path.join(ROOT, "check"), pid, "--tier", a.tier], cwd=ROOT, env=env)
                keys = [l.strip()[4:].split(" count=")[0] for l in c.stdout.splitlines() if l.strip().startswith("key=")]
                res[pid] = {"exit": c.returncode, "keys": keys[:6]}
        finally:
            if copy:
                shutil.rmtree(copy, ignore_errors=True)
            else:
                sh(["git", "-C", "/repo", "checkout", "--", "."])
        caught = any(v["exit"] == 1 for v in res.values())
        meta.setdefault("checks", {}).setdefault(a.tier, {}).update(res)
        meta["caught"] = caught or meta.get("caught", False)
        json.dump(meta, open(os.path.join(d, "meta.json"), "w"), indent=1)
        print("%-24s %s %s" % (sid, "CAUGHT" if caught else "MISSED", json.dumps(res)))


def cmd_report(a):
    rows = []
    for sid in sorted(os.listdir(SEEDED)):
        f = os.path.join(SEEDED, sid, "meta.json")
        if not os.path.exists(f):
            continue
        m = json.load(open(f))
        res = m.get("checks", {}).get("quick", {})
        caught = sorted(p for p, v in res.items() if v.get("exit") == 1)
        quiet = sorted(p for p, v in res.items() if v.get("exit") == 0)
        keys = "; ".join("%s: %s" % (p, ", ".join(res[p]["keys"][:2])) for p in caught)
        if m.get("obsolete"):
            keys = "OBSOLETE: " + m["obsolete"]
        rows.append("| %s | %s | %s | %s | %s |" % (sid, m.get("property"), ", ".join(caught) or "-", ", ".join(quiet) or "-", keys.replace("|", "/")[:420]))
    out = ["# Changes seeded by independent sub-agents vs the checks (quick tier)", "",
           "Each change was written by a fresh sub-agent that saw only the property text and a scratch worktree of /repo, was confirmed there (its demo fails with",
           "the change and passes without; the repository's 404 tests still pass), and is kept as `seeded/<id>/patch.diff` + demo + `meta.json`.",
           "`tools/seeded.py run <id> --props ...` applies it to /repo, runs the named checks and undoes it (`git checkout -- .`).", "",
           "| seeded change | property | caught by | quiet (other checks run against it) | first keys |", "|---|---|---|---|---|"] + rows
    open(os.path.join(SEEDED, "RESULTS.md"), "w").write("\n".join(out) + "\n")
    print(len(rows), "rows")


ap = argparse.ArgumentParser()
sub = ap.add_subparsers(dest="cmd")
i = sub.add_parser("import")
i.add_argument("src")
i.add_argument("id")
i.add_argument("prop")
i.add_argument("--needs")
r = sub.add_parser("run")
r.add_argument("id")
r.add_argument("--tier", default="quick")
r.add_argument("--props")
r.add_argument("--copy", action="store_true")
sub.add_parser("report")
a = ap.parse_args()
sys.exit(cmd_import(a) if a.cmd == "import" else (cmd_report(a) if a.cmd == "report" else cmd_run(a)))
