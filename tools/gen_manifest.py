#!/usr/bin/env python3
"""Regenerate MANIFEST.json from the property modules that exist (tools/gen_manifest.py)."""
import json
import os
import re

ROOT = os.path.dirname(os.path.dirname(os.path.abspath(__file__)))
props = [json.loads(l) for l in open(os.path.join(ROOT, "properties.jsonl"))]
built = sorted(f[:-3].upper() for f in os.listdir(os.path.join(ROOT, "rtmon", "props")) if re.match(r"c\d+\.py$", f))
meta = json.load(open(os.path.join(ROOT, "tools", "manifest_meta.json")))
checks = []
na = []
for p in props:
    pid = p["id"]
    if pid in built and pid in meta["checks"]:
        m = meta["checks"][pid]
        checks.append({
            "property_id": pid,
            "quick_cmd": "./check %s --tier quick" % pid,
            "thorough_cmd": "./check %s --tier thorough" % pid,
            "evidence_file": "evidence/%s.json" % pid,
            "replay_cmd_template": "./check %s --replay {path}" % pid,
            "engine": "rtmon",
            "level_claimed": {"category": "exploration", "text": m["text"], "design_ref": m.get("design_ref", "DESIGN.md section 4, " + pid)},
            "level_note": m["note"],
            "technique": m["technique"],
        })
    else:
        na.append({"property_id": pid, "reason": meta.get("not_applicable", {}).get(pid, "check not built yet in this round (runtime monitoring applies; see DESIGN.md section 4)")})
man = {
    "version": 1,
    "setup_cmd": "/venv/bin/python -m compileall -q rtmon >/dev/null; ./check --self-check",
    "hooks": {
        "guard": "SVGELEMENTS_VERIF",
        "enable": "set to 1 by ./check for its workers; monitors are installed by the harness on the imported classes (rtmon/hook.py rebinding class attributes), no source commits in /repo",
        "baseline_off_cmd": "cd /repo && env -u SVGELEMENTS_VERIF /venv/bin/python -m pytest -ra -q -p no:cacheprovider --timeout=900 --continue-on-collection-errors",
        "source_commits": [],
        "add_only": True,
    },
    "engines": [{"name": "rtmon", "path": "rtmon/", "serves_properties": [c["property_id"] for c in checks],
                 "kind_free_text": "runtime monitoring: stratified workload generators drive the real library in 16 worker processes; reference-model monitors, invariant hooks on the real functions, metamorphic monitors and sys.monitoring anchor coverage observe every execution"}],
    "checks": checks,
    "not_applicable": na,
    "notes": meta.get("notes", ""),
}
json.dump(man, open(os.path.join(ROOT, "MANIFEST.json"), "w"), indent=1)
print("checks:", [c["property_id"] for c in checks], "not claimed:", [n["property_id"] for n in na])
