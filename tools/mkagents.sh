#!/bin/bash
# usage: mkagents.sh C01 C09 ...
for p in "$@"; do
  git -C /repo worktree remove --force /tmp/seed-$p 2>/dev/null
  git -C /repo worktree add -q --detach /tmp/seed-$p HEAD && echo ok $p
done
python3 - "$@" <<'PY'
import json,sys
props={json.loads(l)['id']:json.loads(l) for l in open('/verif/properties.jsonl')}
t=open('/verif/tools/agent_prompt_template.txt').read()
for pid in sys.argv[1:]:
    p=props[pid]
    text="%s\nStatement: %s\nQuantified over: %s" % (p['title'],p['statement'],p['quantifier']['text'])
    open('/tmp/agent_prompt_%s.txt'%pid,'w').write(t.replace('{WT}','/tmp/seed-%s'%pid).replace('{PROP}',text))
PY
