#!/venv/bin/python
"""Mutant self-test: apply realistic breaking edits to a scratch copy of /repo and see which check fires.

  selftest/run.py [--props C01,C17] [--ids m1,m2] [--tests] [--tier quick] [--seed 0]

Every mutant is a list of (old, new) source replacements in svgelements/svgelements.py (each `old` must occur
exactly once).  The copy lives under /tmp/rtmon-mut-* and is removed afterwards.  With --tests the repository's
own suite is run on the mutant as well (it should still pass: these are the changes the tests do not notice).
Results are appended to selftest/RESULTS.md by --write.
"""
import argparse
import json
import os
import shutil
import subprocess
import sys
import tempfile

HERE = os.path.dirname(os.path.abspath(__file__))
ROOT = os.path.dirname(HERE)
sys.path.insert(0, HERE)
from mutants import MUTANTS  # noqa


def apply(m, dst):
    p = os.path.join(dst, "svgelements", "svgelements.py")
    s = open(p).read()
    for old, new in m["edits"]:
        if s.count(old) != 1:
            raise RuntimeError("mutant %s: pattern occurs %d times: %r" % (m["id"], s.count(old), old[:60]))
        s = s.replace(old, new)
    open(p, "w").write(s)


def main():
    ap = argparse.ArgumentParser()
    ap.add_argument("--props")
    ap.add_argument("--ids")
    ap.add_argument("--tests", action="store_true")
    ap.add_argument("--tier", default="quick")
    ap.add_argument("--seed", default="0")
    ap.add_argument("--write", action="store_true")
    a = ap.parse_args()
    props = set(a.props.split(",")) if a.props else None
    ids = set(a.ids.split(",")) if a.ids else None
    rows = []
    for m in MUTANTS:
        if ids and m["id"] not in ids:
            continue
        if props and not (props & set(m["props"])):
            continue
        d = tempfile.mkdtemp(prefix="rtmon-mut-")
        try:
            subprocess.run(["git", "-C", "/repo", "worktree", "prune"], check=False)
            shutil.copytree("/repo/svgelements", os.path.join(d, "svgelements"))
            shutil.copytree("/repo/test", os.path.join(d, "test"))
            try:
                apply(m, d)
            except RuntimeError as e:
                print("SKIP", e)
                rows.append((m["id"], m["props"], "pattern-missing", {}, m["what"]))
                continue
            tests = "-"
            if a.tests:
                r = subprocess.run([os.path.join(ROOT, "tools", "repo_tests.py"), d], capture_output=True, text=True)
                tests = "pass" if r.returncode == 0 else "FAIL: " + r.stdout.strip().splitlines()[-1][:80]
            caught = {}
            for pid in m["props"]:
                if props and pid not in props:
                    continue
                env = dict(os.environ, RTMON_TARGET=d, RTMON_NO_EVIDENCE="1", VERIF_SEED=a.seed)
                r = subprocess.run([os.path.join(ROOT, "check"), pid, "--tier", a.tier], capture_output=True, text=True, env=env, cwd=ROOT)
                keys = [l.strip()[4:].split(" count=")[0] for l in r.stdout.splitlines() if l.strip().startswith("key=")]
                caught[pid] = (r.returncode, keys[:4])
            ok = any(rc == 1 for rc, _ in caught.values())
            print("%-28s %-6s tests=%-5s %s" % (m["id"], "CAUGHT" if ok else "MISSED", tests, json.dumps(caught)))
            rows.append((m["id"], m["props"], tests, caught, m["what"]))
        finally:
            shutil.rmtree(d, ignore_errors=True)
    # (mutant runs are started with RTMON_NO_EVIDENCE=1: they leave no evidence behind)
    if a.write:
        with open(os.path.join(HERE, "RESULTS.md"), "a") as f:
            for mid, ps, tests, caught, what in rows:
                f.write("| %s | %s | %s | %s | %s |\n" % (mid, ",".join(ps), tests, "; ".join("%s:%s %s" % (k, "CAUGHT" if v[0] == 1 else "missed(%d)" % v[0], ",".join(v[1])) for k, v in caught.items()), what))
    missed = [r[0] for r in rows if not any(v[0] == 1 for v in r[3].values())]
    print("missed:", missed)
    return 0


if __name__ == "__main__":
    sys.exit(main())
