"""Catalogue of realistic breaking edits (DESIGN.md section 2.7).

Each entry: id, props (checks expected to notice), what, edits [(old, new)] on svgelements/svgelements.py.
The edits are of the kind a refactor or "clean-up" produces; most leave the repository's own tests green.
"""
MUTANTS = []


def M(id, props, what, *edits):
    MUTANTS.append({"id": id, "props": props, "what": what, "edits": list(edits)})


# ---- path-data parsing (C01, C09, C17) ------------------------------------------------------------------
M("inline-close-not-reset", ["C09"], "stale inline_close after a close command",
  ("                self.parser.closed(relative=cmd.islower())\n                self.inline_close = None\n", "                self.parser.closed(relative=cmd.islower())\n"))
M("hv-axes-swapped-rel", ["C01", "C17"], "relative V uses x offset axis",
  ("                        Point(start_pos.x, start_pos.y + y_points[index]),", "                        Point(start_pos.x + y_points[index], start_pos.y),"))
M("rcoord-uses-zpoint", ["C01", "C17"], "relative offsets resolved against the subpath start instead of the current point",
  ("        current_pos = self.parser.current_point\n        if current_pos is None:\n            return position", "        current_pos = self.parser.z_point\n        if current_pos is None:\n            return position"))
M("zpoint-first-move", ["C01", "C17"], "z_point searches from the front: close returns to the FIRST move",
  ("        for segment in reversed(self._segments):\n            if isinstance(segment, Move):\n                end_pos = segment.end\n                break", "        for segment in self._segments:\n            if isinstance(segment, Move):\n                end_pos = segment.end\n                break"))
M("flag-regex-greedy", ["C01"], "flag token swallows two digits",
  ('flag_parse = [("FLAG", r"[01]")', 'flag_parse = [("FLAG", r"[01]{1,2}")'))
M("float-regex-no-exponent-sign", ["C01"], "exponent sign not accepted",
  ('PATTERN_FLOAT = r"[-+]?[0-9]*\\.?[0-9]+(?:[eE][-+]?[0-9]+)?"', 'PATTERN_FLOAT = r"[-+]?[0-9]*\\.?[0-9]+(?:[eE][0-9]+)?"'))
M("smooth-quad-no-reflect-chain", ["C01", "C17"], "T after T uses current point",
  ("            control1 = self._smooth_point_of(QuadraticBezier)", "            control1 = self._smooth_point_of(QuadraticBezier) if not self._segments[-1].smooth else self.current_point"))
M("move-extra-pairs-as-moves", ["C01"], "extra pairs after M become moves",
  ("                while self._more():\n                    coord = self._coord()\n                    self.parser.line(coord, relative=False)", "                while self._more():\n                    coord = self._coord()\n                    self.parser.move(coord, relative=False)"))
M("copy-drops-relative", ["C17"], "Linear.__copy__ loses the relative flag",
  ("        return self.__class__(self.start, self.end, relative=self.relative)", "        return self.__class__(self.start, self.end)"))
M("smooth-point-after-copy", ["C17"], "QuadraticBezier copy loses smooth flag",
  ("            self.end,\n            relative=self.relative,\n            smooth=self.smooth,\n        )\n\n    def __eq__(self, other):\n        if not isinstance(other, QuadraticBezier):", "            self.end,\n            relative=self.relative,\n        )\n\n    def __eq__(self, other):\n        if not isinstance(other, QuadraticBezier):"))
M("iadd-str-new-path", ["C17"], "+= string parses the string alone and extends",
  ("        if isinstance(other, str):\n            self.parse(other)\n        elif isinstance(other, (Path, Subpath)):", "        if isinstance(other, str):\n            self.extend(Path(other))\n        elif isinstance(other, (Path, Subpath)):"))
# ---- matrices (C04) ------------------------------------------------------------------------------------
M("pre-cat-order", ["C04"], "pre_cat multiplies on the wrong side",
  ("        self.a, self.b, self.c, self.d, self.e, self.f = Matrix.matrix_multiply(\n            mx, self\n        )", "        self.a, self.b, self.c, self.d, self.e, self.f = Matrix.matrix_multiply(\n            self, mx\n        )"))
M("grad-factor", ["C04"], "gradians use 360", ("        return cls(tau * gradians / 400.0)", "        return cls(tau * gradians / 360.0)"))
M("rotate-centre-sign", ["C04"], "pre_rotate about a centre translates the wrong way",
  ("            self.pre_translate(x, y)\n            self.pre_rotate(angle)\n            self.pre_translate(-x, -y)", "            self.pre_translate(-x, -y)\n            self.pre_rotate(angle)\n            self.pre_translate(x, y)"))
M("scale-single-arg", ["C04"], "scale(s) leaves y alone",
  ("    def pre_scale(self, sx=1.0, sy=None, x=0.0, y=0.0):\n        if sy is None:\n            sy = sx", "    def pre_scale(self, sx=1.0, sy=None, x=0.0, y=0.0):\n        if sy is None:\n            sy = 1.0"))
M("skew-entries-swapped", ["C04"], "Matrix.skew puts the tangents in the wrong entries",
  ("        return cls(1.0, bb, aa, 1.0, 0.0, 0.0)", "        return cls(1.0, aa, bb, 1.0, 0.0, 0.0)"))
M("inverse-translation", ["C04"], "inverse translation sign error",
  ("        self.f = (m10 * m02 - m00 * m12) * inverse_determinant", "        self.f = (m00 * m12 - m10 * m02) * inverse_determinant"))
M("post-skew-centre", ["C04"], "post_skew about a centre forgets to translate back",
  ("            self.post_translate(-x, -y)\n            self.post_skew(angle_a, angle_b)\n            self.post_translate(x, y)", "            self.post_translate(-x, -y)\n            self.post_skew(angle_a, angle_b)\n            self.post_translate(x, -y)"))
M("translate-pt-units", ["C04"], "pt treated as px in Length.value",
  ("        if self.units == \"pt\":\n            return self.amount * 4.0 / 3.0\n        if self.units == \"pc\":\n            return self.amount * 16.0\n        if self.units == \"em\":", "        if self.units == \"pt\":\n            return self.amount\n        if self.units == \"pc\":\n            return self.amount * 16.0\n        if self.units == \"em\":"))

# ---- totality (C09) --------------------------------------------------------------------------------------
M("h-operand-check-removed", ["C09"], "h without operand no longer raises ValueError",
  ("""            elif cmd == "h":
                while True:
                    value = self._number()
                    if value is None:
                        raise ValueError
""", """            elif cmd == "h":
                while True:
                    value = self._number()
"""))
M("coord-odd-count-silent", ["C09"], "_coord returns None instead of raising on a lone number",
  ("        y = self._number()\n        if y is None:\n            raise ValueError\n        return x, y", "        y = self._number()\n        if y is None:\n            return None\n        return x, y"))
M("unknown-char-raises-keyerror", ["C09"], "unknown character raises KeyError instead of stopping",
  ("            if match is None:\n                return None  # Did not match at command sequence.", "            if match is None:\n                raise KeyError(self.pathd[self.pos])"))
M("q-operand-check-first-only", ["C09"], "Q checks only its first pair",
  ("""                    if coord2 is None:
                        coord2 = self.inline_close
                        if coord2 is None:
                            raise ValueError
                    self.parser.quad(coord1, coord2, relative=False)""", """                    if coord2 is None:
                        coord2 = self.inline_close
                    self.parser.quad(coord1, coord2, relative=False)"""))
M("close-after-error-dropped", ["C09"], "Z followed by a number drops the close again",
  ("                more = self._more()\n                self.parser.closed(relative=cmd.islower())\n                self.inline_close = None\n                if more:\n                    raise ValueError", "                if self._more():\n                    raise ValueError\n                self.parser.closed(relative=cmd.islower())\n                self.inline_close = None"))
M("arc-flag-check-removed", ["C09"], "absolute A accepts a missing flag again",
  ("""                        self._coord(),
                    )
                    if sweep is None:
                        raise ValueError
""", """                        self._coord(),
                    )
"""))

# ---- arcs (C05) ------------------------------------------------------------------------------------------
M("arc-flag-equality-flipped", ["C05", "C01"], "centre chosen on the wrong side", ("        if large_arc_flag == sweep_flag:\n            c = -c", "        if large_arc_flag != sweep_flag:\n            c = -c"))
M("arc-delta-no-modulo", ["C05", "C01"], "delta % 360 dropped", ("        delta = delta % 360\n        if not sweep_flag:", "        if not sweep_flag:"))
M("arc-acos-clamp-removed", ["C05"], "acos clamp removed (math domain error on half turns)",
  ("        if d > 1.0:\n            d = 1.0\n        elif d < -1.0:\n            d = -1.0\n        delta = degrees(acos(d))", "        delta = degrees(acos(d))"))
M("arc-radius-correction-strict", ["C05"], "radii scaled up only when far too small",
  ("        if radius_check > 1:\n            rx *= sqrt(radius_check)", "        if radius_check > 1.5:\n            rx *= sqrt(radius_check)"))
M("arc-abs-radii-removed", ["C05"], "negative radii no longer absolute", ("        rx = abs(rx)\n        ry = abs(ry)\n        cosr = cos(radians(rotation))", "        cosr = cos(radians(rotation))"))
M("arc-zero-radius-length", ["C05"], "zero-radius arc has length 0 again",
  ("            if self.start is None or self.end is None:\n                return 0\n            return Point.distance(self.start, self.end)", "            return 0"))
M("arc-rotation-radians", ["C05", "C01"], "rotation used without degree conversion for prx/pry",
  ("            Angle.degrees(rotation).as_radians, center.x, center.y", "            Angle.radians(rotation).as_radians, center.x, center.y"))

# ---- affine maps (C02) -----------------------------------------------------------------------------------
M("arc-sweep-flip-removed", ["C02"], "reflection no longer flips the arc's sweep",
  ("            if other.determinant < 0:\n                self.sweep = -self.sweep\n            self._orthogonalize_axes()", "            self._orthogonalize_axes()"))
M("arc-center-not-mapped", ["C02"], "Arc.__imul__ forgets the centre under translation-free check",
  ("            if self.center is not None:\n                self.center *= other\n            if self.end is not None:\n                self.end *= other\n            if self.prx", "            if self.center is not None:\n                self.center *= other.vector()\n            if self.end is not None:\n                self.end *= other\n            if self.prx"))
M("arc-orthogonalize-removed", ["C02"], "conjugate diameters kept as axes again",
  ("                self.sweep = -self.sweep\n            self._orthogonalize_axes()\n        return self", "                self.sweep = -self.sweep\n        return self"))
M("cubic-imul-control2-skipped", ["C02"], "CubicBezier.__imul__ skips control2 when it coincides with the end point",
  ("            if self.control2 is not None:\n                self.control2 *= other\n            if self.end is not None:\n                self.end *= other\n        return self\n\n    def __len__(self):\n        return 4", "            if self.control2 is not None and self.control2 != self.end:\n                self.control2 *= other\n            if self.end is not None:\n                self.end *= other\n        return self\n\n    def __len__(self):\n        return 4"))
M("transformable-imul-order", ["C02"], "Transformable.__imul__ pre-multiplies",
  ("        if isinstance(other, Matrix):\n            self.transform *= other\n        return self\n\n    def __abs__(self):", "        if isinstance(other, Matrix):\n            self.transform = other * self.transform\n        return self\n\n    def __abs__(self):"))
M("path-reify-no-reset", ["C02"], "Path.reify leaves the transform in place",
  ("            for e in self._segments:\n                e *= self.transform\n        self.transform.reset()\n        return self", "            for e in self._segments:\n                e *= self.transform\n        return self"))
M("roundshape-skew-branch-removed", ["C02", "C06"], "round shapes decomposed in transformed space under skew again",
  ("                return [s * m for s in self.segments(transformed=False)]\n", "                pass\n"))
M("subpath-imul-off-by-one", ["C02"], "Subpath.__imul__ misses its last segment",
  ("    def __imul__(self, other):\n        if isinstance(other, str):\n            other = Matrix(other)\n        if isinstance(other, Matrix):\n            for e in self:\n                e *= other\n        return self\n\n    def __mul__(self, other):\n        if isinstance(other, (Matrix, str)):\n            n = copy(self)\n            n *= other\n            return n\n        return NotImplemented\n\n    __rmul__ = __mul__\n\n    def __iter__(self):",
   "    def __imul__(self, other):\n        if isinstance(other, str):\n            other = Matrix(other)\n        if isinstance(other, Matrix):\n            for e in list(self)[:-1]:\n                e *= other\n        return self\n\n    def __mul__(self, other):\n        if isinstance(other, (Matrix, str)):\n            n = copy(self)\n            n *= other\n            return n\n        return NotImplemented\n\n    __rmul__ = __mul__\n\n    def __iter__(self):"))

# ---- arc to Bezier (C19) ---------------------------------------------------------------------------------
M("cubic-alpha-half-slice", ["C19"], "alpha uses tan(t_slice) instead of tan(t_slice/2)",
  ("            alpha = sin(t_slice) * (sqrt(4 + 3 * pow(tan(t_slice / 2.0), 2)) - 1) / 3.0", "            alpha = sin(t_slice) * (sqrt(4 + 3 * pow(tan(t_slice), 2)) - 1) / 3.0"))
M("cubic-last-end-not-snapped", ["C19"], "last curve ends at the computed point instead of the arc's end",
  ("            p_end = (p2En2x, p2En2y)\n            if i == arc_required - 1:\n                p_end = self.end\n", "            p_end = (p2En2x, p2En2y)\n"))
M("quad-alpha-constant", ["C19"], "quad control distance uses cos(t_slice/2)",
  ("            alpha = (4.0 - cos(t_slice)) / 3.0", "            alpha = (4.0 - cos(t_slice / 2.0)) / 3.0"))
M("quad-mid-t-wrong", ["C19"], "quad control placed at the slice end angle", ("            mid_t = (next_t + current_t) / 2", "            mid_t = next_t"))
M("approx-sweep-limit-degrees", ["C19"], "approximate_arcs_with_cubics counts slices from a too large limit",
  ("        sweep_limit = tau * error\n        for s in range(len(self) - 1, -1, -1):\n            segment = self[s]\n            if isinstance(segment, Arc):\n                arc_required = int(ceil(abs(segment.sweep) / sweep_limit))\n                self[s : s + 1] = list(segment.as_cubic_curves(arc_required))",
   "        sweep_limit = tau * error * 4\n        for s in range(len(self) - 1, -1, -1):\n            segment = self[s]\n            if isinstance(segment, Arc):\n                arc_required = int(ceil(abs(segment.sweep) / sweep_limit))\n                self[s : s + 1] = list(segment.as_cubic_curves(arc_required))"))
M("cubic-ignores-negative-sweep", ["C19"], "cubic chain built from abs(sweep)", ("        t_slice = self.sweep / float(arc_required)\n\n        theta = self.get_rotation()", "        t_slice = abs(self.sweep) / float(arc_required)\n\n        theta = self.get_rotation()"))

# ---- bounding boxes (C08) --------------------------------------------------------------------------------
M("quad-bbox-closed-interval", ["C08"], "quadratic extremum test uses the y parameter for x", ("        if 0 < t < 1:\n            x_values = [self.start.x, self.end.x, self.point(t).x]", "        if 0.25 < t < 1:\n            x_values = [self.start.x, self.end.x, self.point(t).x]"))
M("cubic-bbox-one-root", ["C08"], "cubic extrema: second root dropped", ("                if q != 0:\n                    roots.append(qc / q)\n", ""))
M("arc-bbox-k-range", ["C08"], "arc extremal candidates only for k in -1..1", ("        for k in range(-4, 5):\n            tx = angle_inv(atan_x, k)", "        for k in range(-1, 2):\n            tx = angle_inv(atan_x, k)"))
M("arc-bbox-atan-sign", ["C08"], "arc x-extremum angle sign", ("            atan_x = atan(-(ry / rx) * tan(phi))", "            atan_x = atan((ry / rx) * tan(phi))"))
M("arc-bbox-rot0-swapped", ["C08"], "unrotated arcs: candidate angles swapped", ("        elif sin(phi) == 0:\n            atan_x = 0\n            atan_y = tau / 4.0", "        elif sin(phi) == 0:\n            atan_x = tau / 4.0\n            atan_y = 0"))
M("stroke-delta-when-none", ["C08"], "stroke growth applied although stroke is none", ("            return None  # No bounding box items existed. So no bounding box.\n\n        if (\n            with_stroke\n            and self.stroke_width is not None\n            and not (self.stroke is None or self.stroke.value is None)", "            return None  # No bounding box items existed. So no bounding box.\n\n        if (\n            with_stroke\n            and self.stroke_width is not None\n            and not (self.stroke is None)"))
M("stroke-delta-full-width", ["C08"], "box grown by the full stroke width", ("                delta = float(self.implicit_stroke_width) / 2.0\n            else:\n                delta = float(self.stroke_width) / 2.0\n        else:\n            delta = 0.0\n\n        return (\n            min(xmins) - delta,\n            min(ymins) - delta,\n            max(xmaxs) + delta,\n            max(ymaxs) + delta,\n        )\n\n    def _init_shape", "                delta = float(self.implicit_stroke_width)\n            else:\n                delta = float(self.stroke_width) / 2.0\n        else:\n            delta = 0.0\n\n        return (\n            min(xmins) - delta,\n            min(ymins) - delta,\n            max(xmaxs) + delta,\n            max(ymaxs) + delta,\n        )\n\n    def _init_shape"))
M("implicit-stroke-det-no-sqrt", ["C08", "C14"], "implicit stroke width scales by |det| instead of its root", ("                return width * sqrt(abs(det))", "                return width * abs(det)"))
M("group-bbox-skips-nested", ["C08"], "group union looks at direct children only", ("        return Group.union_bbox(\n            self.select(),", "        return Group.union_bbox(\n            iter(self),"))
M("subpath-bbox-untransformed-stroke", ["C08"], "Subpath.bbox(transformed=False) ignores the stroke flag", ("        if (\n            with_stroke\n            and self._path.stroke_width is not None", "        if (\n            False\n            and self._path.stroke_width is not None"))

# ---- lengths and point(t) (C15) --------------------------------------------------------------------------
M("quad-length-fallback-branch", ["C15"], "degenerate quadratic fallback picks the wrong branch", ("                if k >= 2:\n                    s = abs(b) - abs(a)", "                if k >= 1:\n                    s = abs(b) - abs(a)"))
M("quad-length-closed-form-typo", ["C15"], "closed form of the quadratic length: 4CA-BB sign", ("                + (4 * C * A - B * B) * log((2 * A2 + BA + Sabc) / (BA + C2))", "                + (4 * C * A + B * B) * log((2 * A2 + BA + Sabc) / (BA + C2))"))
M("arc-circle-shortcut-uses-ry-only", ["C15"], "circle shortcut threshold too wide", ("        if d < ERROR:  # This is a circle.\n            return abs(self.rx * self.sweep)", "        if d < 1e-2:  # This is a circle.\n            return abs(self.rx * self.sweep)"))
M("subdivision-min-depth-skipped", ["C15"], "min_depth honoured with 'and'", ("        if (length2 - length > error) or (depth < min_depth):", "        if (length2 - length > error) and (depth < min_depth):"))
M("subdivision-error-halved-each-level", ["C15"], "stop criterion compares against 100 x error", ("        if (length2 - length > error) or (depth < min_depth):", "        if (length2 - length > error * 100) or (depth < min_depth):"))
M("calc-lengths-skips-last", ["C15"], "relative lengths computed over all but the last segment", ("        lengths = [each.length(error=error, min_depth=min_depth) for each in segments]\n        self._length_error = error", "        lengths = [each.length(error=error, min_depth=min_depth) for each in segments[:-1]] + [0]\n        self._length_error = error"))
M("point-segment-strict-compare", ["C15"], "point(t): first segment whose end is strictly greater", ("            if segment_end >= position:\n                # This is the segment! How far in on the segment is the point?", "            if segment_end > position + 1e-3:\n                # This is the segment! How far in on the segment is the point?"))
M("point-fallthrough-start", ["C15"], "fall-through of point(t) returns the last segment's start again", ("        else:\n            # The fractions summed to slightly less than the position: it is the end of the last segment.\n            segment_pos = 1.0\n", ""))
M("reverse-keeps-cache", ["C15"], "reverse no longer invalidates the cached lengths", ("        self._segments[0].start = prepoint\n        self._length = None\n        self._lengths = None\n        return self", "        self._segments[0].start = prepoint\n        return self"))
M("close-length-zero", ["C15"], "Close contributes no length", ("    def length(self, error=None, min_depth=None):\n        if self.start is not None and self.end is not None:\n            return Point.distance(self.end, self.start)", "    def length(self, error=None, min_depth=None):\n        if isinstance(self, Close):\n            return 0\n        if self.start is not None and self.end is not None:\n            return Point.distance(self.end, self.start)"))

# ---- reverse (C16) ---------------------------------------------------------------------------------------
M("arc-reverse-keeps-sweep", ["C16"], "Arc.reverse does not negate the sweep", ("    def reverse(self):\n        PathSegment.reverse(self)\n        self.sweep = -self.sweep", "    def reverse(self):\n        PathSegment.reverse(self)"))
M("cubic-reverse-keeps-controls", ["C16"], "CubicBezier.reverse does not swap its controls", ("        c2 = self.control2\n        self.control2 = self.control1\n        self.control1 = c2", "        c2 = self.control2"))
M("subpath-reverse-skips-middle", ["C16"], "segment swap loop stops one short", ("        while s <= e:\n            start_segment = segments[s]", "        while s < e:\n            start_segment = segments[s]"))
M("subpath-reverse-close-end", ["C16"], "closed subpath: close not re-targeted at the moved start", ("            if last.end != self[0].end:\n                last.end = Point(self[0].end)", "            pass"))
M("path-reverse-subpath-order", ["C16"], "reversed subpaths re-assembled in the original order", ("        for subpath in reversed(subpaths):\n            p += subpath", "        for subpath in subpaths:\n            p += subpath"))
M("as-subpaths-close-window", ["C16"], "subpath window after a close starts one late", ("            if isinstance(seg, Close):\n                yield Subpath(self, start, current)\n                start = current + 1", "            if isinstance(seg, Close):\n                yield Subpath(self, start, current)\n                start = current + 2"))
M("reverse-prefer-second-dropped", ["C16"], "view reversal re-links the neighbour with the wrong authority", ("        self._path._validate_connection(start - 1, prefer_second=True)", "        self._path._validate_connection(start - 1)"))

# ---- d() round trip (C07) --------------------------------------------------------------------------------
M("point-str-six-digits", ["C07"], "coordinates written with 6 significant digits", ('            x_str = "%.12G" % self.x', '            x_str = "%.6G" % self.x'))
M("point-str-strips-exponent", ["C07"], "exponent zeros stripped again", ('        y_str = "%.12G" % self.y\n        return "%s,%s" % (x_str, y_str)', '        y_str = "%.12G" % self.y\n        if "." in y_str:\n            y_str = y_str.rstrip("0").rstrip(".")\n        return "%s,%s" % (x_str, y_str)'))
M("arc-d-large-flag-ge", ["C07"], "large-arc flag uses >=", ("                int(abs(self.sweep) > (tau / 2.0)),\n                int(self.sweep >= 0),\n                self.end,", "                int(abs(self.sweep) >= (tau / 4.0)),\n                int(self.sweep >= 0),\n                self.end,"))
M("arc-d-sweep-flag-inverted-relative", ["C07"], "relative arcs written with the opposite sweep flag", ("                int(self.sweep >= 0),\n                self.end - current_point,", "                int(self.sweep < 0),\n                self.end - current_point,"))
M("svgd-relative-current-point-stale", ["C07"], "relative output: current point not advanced after a close", ("                previous_segment = segment\n                p = previous_segment.end\n        else:", "                previous_segment = segment\n                if not isinstance(segment, Close):\n                    p = previous_segment.end\n        else:"))
M("cubic-d-smooth-writes-control1", ["C07"], "S written with control1", ('                return "S %s %s" % (self.control2, self.end)', '                return "S %s %s" % (self.control1, self.end)'))
M("quad-smooth-after-cubic", ["C07"], "T considered smooth after a cubic whose control2 it reflects", ("        if isinstance(previous, QuadraticBezier):\n            return self.start == previous.end and (self.control - self.start) == (\n                previous.end - previous.control\n            )", "        if isinstance(previous, (QuadraticBezier, CubicBezier)):\n            pc = previous.control if isinstance(previous, QuadraticBezier) else previous.control2\n            return self.start == previous.end and (self.control - self.start) == (\n                previous.end - pc\n            )"))
M("smooth-test-ignores-start", ["C07"], "smooth test no longer requires the control to reflect", ("            return self.start == previous.end and (self.control1 - self.start) == (\n                previous.end - previous.control2\n            )", "            return self.start == previous.end"))

# ---- shapes vs equivalent paths (C06) --------------------------------------------------------------------
M("rect-clamp-uses-width-for-ry", ["C06"], "ry clamped against half the width", ("                ry = min(ry, self.height / 2.0)", "                ry = min(ry, self.width / 2.0)"))
M("rect-auto-rx-not-copied", ["C06"], "ry given, rx omitted: rx stays 0", ("        elif ry is not None and rx is None:\n            ry = Length(ry).value(relative_length=self.height)\n            rx = ry", "        elif ry is not None and rx is None:\n            ry = Length(ry).value(relative_length=self.height)\n            rx = 0"))
M("rect-corner-order", ["C06"], "third corner arc ends at the wrong corner point", ("                Arc(\n                    (x + rx, y + height),\n                    (x, y + height - ry),", "                Arc(\n                    (x + rx, y + height),\n                    (x, y + height - rx),"))
M("rect-zero-height-renders", ["C06"], "a rect of zero height still produces segments", ("        if self.is_degenerate():\n            return ()  # a computed value of zero for either dimension disables rendering.", "        if self.width == 0:\n            return ()  # a computed value of zero for either dimension disables rendering."))
M("ellipse-start-at-top", ["C06"], "ellipse decomposition starts a quarter turn late", ("        t_start = 0\n        t_end = step_size", "        t_start = step_size\n        t_end = 2 * step_size"))
M("polygon-no-close", ["C06"], "polygon of two points gets no close", ("        if isinstance(self, Polygon):\n            segments.append(Close(last, points[0]))", "        if isinstance(self, Polygon) and len(points) > 2:\n            segments.append(Close(last, points[0]))"))
M("polyline-pairs-from-flat-list", ["C06"], "points given as coordinate pairs dropped when odd", ("                    self.points = list(map(Point, points))", "                    self.points = list(map(Point, points[: len(points) // 2 * 2]))"))
M("shape-eq-ignores-arcs", ["C06"], "Shape.__eq__ compares only the first segment", ("        for s, o in zip(q._segments, p._segments):\n            if not s == o:\n                return False\n        if p.stroke_width != q.stroke_width:", "        for s, o in zip(q._segments[:1], p._segments[:1]):\n            if not s == o:\n                return False\n        if p.stroke_width != q.stroke_width:"))

# ---- copies and aliasing (C18) ---------------------------------------------------------------------------
M("validate-connection-aliases-point", ["C02"], "linking a segment reuses the neighbour's Point object", ("        if first.end is not None and second.start is None:\n            second.start = Point(first.end)", "        if first.end is not None and second.start is None:\n            second.start = first.end"))
M("quad-copy-shares-control", ["C18"], "QuadraticBezier keeps the given control Point object", ("        self.control = Point(control) if control is not None else None", "        self.control = control if isinstance(control, Point) else (Point(control) if control is not None else None)"))
M("matrix-copy-returns-self-when-identity", ["C18"], "Matrix.__copy__ returns itself for the identity", ("    def __copy__(self):\n        return Matrix(self.a, self.b, self.c, self.d, self.e, self.f)", "    def __copy__(self):\n        if self.is_identity():\n            return self\n        return Matrix(self.a, self.b, self.c, self.d, self.e, self.f)"))
M("shape-copy-shares-fill", ["C18"], "copied shapes share the fill Color object", ("        self.fill = Color(s.fill) if s.fill is not None else None\n        self.stroke = Color(s.stroke) if s.stroke is not None else None", "        self.fill = s.fill\n        self.stroke = Color(s.stroke) if s.stroke is not None else None"))
M("shape-copy-shares-values", ["C18"], "copied elements share the values dictionary", ("        self.id = obj.id\n        self.values = dict(obj.values)", "        self.id = obj.id\n        self.values = obj.values"))
M("transformable-copy-shares-matrix", ["C18"], "copied elements share the transform Matrix", ("    def property_by_object(self, s):\n        self.transform = Matrix(s.transform)\n        self.apply = s.apply", "    def property_by_object(self, s):\n        self.transform = s.transform\n        self.apply = s.apply"))
M("group-copy-shallow", ["C18"], "Group copy keeps the child objects", ("            if isinstance(s, Group):\n                self.extend(list(map(copy, s)))", "            if isinstance(s, Group):\n                self.extend(list(s))"))
M("polyshape-copy-shares-points", ["C18"], "copied polygons share their Point objects", ("                elif isinstance(first_point, (list, tuple, complex, str, Point)):\n                    self.points = list(map(Point, points))", "                elif isinstance(first_point, Point):\n                    self.points = list(points)\n                elif isinstance(first_point, (list, tuple, complex, str, Point)):\n                    self.points = list(map(Point, points))"))
M("length-neg-in-place", ["C18", "C12"], "-length negates the operand", ("    def __neg__(self):\n        s = self.__copy__()\n        s.amount = -s.amount\n        return s", "    def __neg__(self):\n        self.amount = -self.amount\n        return self"))
M("arc-copy-shares-center", ["C18"], "copied arcs share the centre Point", ("        if len_args > 2:\n            if args[2] is not None:\n                self.center = Point(args[2])", "        if len_args > 2:\n            if args[2] is not None:\n                self.center = args[2] if isinstance(args[2], Point) else Point(args[2])"))

# ---- viewport (C11) --------------------------------------------------------------------------------------
M("meet-uses-max", ["C11"], "meet picks the larger scale", ('        if align != SVG_VALUE_NONE and meet_or_slice == "meet":\n            scale_x = scale_y = min(scale_x, scale_y)', '        if align != SVG_VALUE_NONE and meet_or_slice == "meet":\n            scale_x = scale_y = max(scale_x, scale_y)'))
M("xmid-uses-height", ["C11"], "xMid centres with the height", ('        if "xmid" in align:\n            translate_x += (e_width - vb_width * scale_x) / 2.0', '        if "xmid" in align:\n            translate_x += (e_height - vb_height * scale_y) / 2.0'))
M("ymax-halved", ["C11"], "yMax only moves half way", ('        if "ymax" in align:\n            translate_y += e_height - vb_height * scale_y', '        if "ymax" in align:\n            translate_y += (e_height - vb_height * scale_y) / 2.0'))
M("default-align-min", ["C11"], "absent preserveAspectRatio aligns at min", ('        else:\n            align = "xMidyMid"\n            meet_or_slice = "meet"', '        else:\n            align = "xMinyMin"\n            meet_or_slice = "meet"'))
M("align-case-sensitive", ["C11"], "alignment keywords matched before lower-casing", ('        align = align.lower()\n        if "xmid" in align:', '        if "xmid" in align:'))
M("slice-missing", ["C11"], "slice treated as meet", ('        elif align != SVG_VALUE_NONE and meet_or_slice == "slice":\n            scale_x = scale_y = max(scale_x, scale_y)', '        elif align != SVG_VALUE_NONE and meet_or_slice == "slice":\n            scale_x = scale_y = min(scale_x, scale_y)'))
M("viewbox-three-numbers-accepted", ["C11"], "an incomplete viewBox keeps its partial values", ("            except IndexError:\n                pass\n\n    def transform(self, element):", "            except IndexError:\n                self.width = self.width if self.width is not None else 100.0\n                self.height = self.height if self.height is not None else 100.0\n\n    def transform(self, element):"))
M("scale-six-decimals", ["C11"], "scale printed with 6 decimals", ('                return "translate(%s, %s) scale(%s, %s)" % (\n                    Length.str(translate_x),\n                    Length.str(translate_y),\n                    Length.str(scale_x),\n                    Length.str(scale_y),', '                return "translate(%s, %s) scale(%s, %s)" % (\n                    Length.str(translate_x),\n                    Length.str(translate_y),\n                    "%.6f" % scale_x,\n                    "%.6f" % scale_y,'))
M("svg-height-defaults-to-width", ["C11"], "missing height falls back to the viewBox width", ("                        height = s.viewbox.height if s.viewbox is not None else 1000", "                        height = s.viewbox.width if s.viewbox is not None else 1000"))
M("nested-zero-returns-again", ["C11", "C10"], "a zero-sized nested svg ends the parse again", ("                                if context is None:\n                                    return s  # The document itself is not rendered.", "                                if True:\n                                    return s  # The document itself is not rendered."))

# ---- lengths (C12) ---------------------------------------------------------------------------------------
M("pc-is-12px", ["C12", "C04"], "pica resolved as 12 user units", ('        if self.units == "pc":\n            return self.amount * 16.0\n        if self.units == "em":', '        if self.units == "pc":\n            return self.amount * 12.0\n        if self.units == "em":'))
M("mm-constant-typo", ["C12"], "mm constant mistyped", ('            return self.amount * ppi * 0.0393701\n        if self.units == "cm":', '            return self.amount * ppi * 0.0397301\n        if self.units == "cm":'))
M("percent-ignores-string-reference", ["C12"], "a percentage of a string reference is returned unresolved", ("            elif isinstance(relative_length, (str, Length)):\n                length = relative_length * self", "            elif isinstance(relative_length, (Length,)):\n                length = relative_length * self"))
M("em-falls-back-to-16", ["C12"], "em guessed as 16px when the font size is missing", ('            if font_size is None:\n                return self\n            return self.amount * float(font_size)', '            if font_size is None:\n                return self.amount * 16.0\n            return self.amount * float(font_size)'))
M("vw-uses-height", ["C12"], "vw resolved against the viewBox height", ('            return self.amount * v.width / 100.0', '            return self.amount * v.height / 100.0'))
M("iadd-cm-mm-factor", ["C12"], "cm + mm adds millimetres as centimetres", ('            if other.units == "mm":\n                self.amount += other.amount / 10.0', '            if other.units == "mm":\n                self.amount += other.amount * 10.0'))
M("truediv-pc-pt", ["C12"], "pc / pt uses the wrong ratio", ('                return self.amount / (other.amount / 12.0)', '                return self.amount / (other.amount * 12.0)'))
M("lt-compares-amounts", ["C12"], "ordering compares raw amounts", ("    def __lt__(self, other):\n        return (self - other).amount < 0.0", "    def __lt__(self, other):\n        return self.amount < Length(other).amount"))
M("eq-tolerance-wide", ["C12"], "equality with a one percent tolerance", ("        if s is not None:\n            o = other.in_pixels()\n            if o is not None:\n                if abs(s - o) <= ERROR:", "        if s is not None:\n            o = other.in_pixels()\n            if o is not None:\n                if abs(s - o) <= 0.01 * abs(s):"))
M("to-cm-uses-mm-constant", ["C12"], "to_cm divides by the mm constant", ("        v = value / (ppi * 0.393701)\n        return Length(\"%scm\" % (Length.str(v)))", "        v = value / (ppi * 0.0393701)\n        return Length(\"%scm\" % (Length.str(v)))"))
M("sub-in-place-alias", ["C12"], "a - b mutates b through the negation", ("    def __isub__(self, other):\n        if isinstance(other, (str, float, int)):\n            other = Length(other)\n        self += -other\n        return self", "    def __isub__(self, other):\n        if isinstance(other, (str, float, int)):\n            other = Length(other)\n        other.amount = -other.amount\n        self += other\n        return self"))

# ---- colours (C13) ---------------------------------------------------------------------------------------
M("keyword-typo-tomato", ["C13"], "tomato has a wrong green channel", ("            return Color.rgb_to_int(255, 99, 71)", "            return Color.rgb_to_int(255, 69, 71)"))
M("hex4-alpha-first", ["C13"], "#rgba read as #argb", ("            s = h[0] + h[0] + h[1] + h[1] + h[2] + h[2] + h[3] + h[3]\n            return int(s, 16)", "            s = h[1] + h[1] + h[2] + h[2] + h[3] + h[3] + h[0] + h[0]\n            return int(s, 16)"))
M("crimp-254", ["C13"], "clamp limit 254", ("        if v > 255:\n            return 255\n        if v < 0:\n            return 0\n        return int(v)", "        if v > 254:\n            return 254\n        if v < 0:\n            return 0\n        return int(v)"))
M("rgb-percent-ratio", ["C13"], "percent ratio 256/100", ("        ratio = 255.0 / 100.0", "        ratio = 256.0 / 100.0"))
M("green-setter-mask", ["C13"], "green setter clears blue as well", ("        self.value &= ~0xFF0000\n        self.value |= g << 16", "        self.value &= ~0xFFFF00\n        self.value |= g << 16"))
M("argb-setter-shift", ["C13"], "argb setter drops the alpha byte", ("        self.value = ((argb << 8) & 0xFFFFFF00) | (argb >> 24 & 0xFF)", "        self.value = ((argb << 8) & 0xFFFFFF00) | 0xFF"))
M("hex-drops-alpha-ff-only-for-opaque", ["C13"], "hex omits alpha when it is 0 as well", ("        if self.alpha == 0xFF:\n            return self.hexrgb", "        if self.alpha == 0xFF or self.alpha == 0:\n            return self.hexrgb"))
M("hsl-lightness-branch", ["C13"], "hsl conversion uses the wrong branch at l = 0.5", ("            if l < 0.5:\n                v2 = l * (1.0 + s)", "            if l <= 0.6:\n                v2 = l * (1.0 + s)"))
M("saturation-getter-denominator", ["C13"], "saturation getter uses the wrong denominator for light colours", ("            return delta / (2.0 - max_v - min_v)", "            return delta / (2.0 - max_v)"))
M("bgr-getter-swapped", ["C13"], "bgr getter returns rgb order", ("        return self.blue << 16 | self.green << 8 | self.red", "        return self.red << 16 | self.green << 8 | self.blue"))
M("keyword-case-sensitive", ["C13"], "keywords only recognised in lower case", ('            v = v.replace(" ", "").lower()', '            v = v.replace(" ", "")'))

# ---- documents: geometry (C03) -----------------------------------------------------------------------------
M("viewport-not-restored", ["C03"], "the viewport size of a nested svg stays in force after it closes (the repaired defect)",
  ("                context, values, width, height = stack.pop()\n            elif event == \"start-ns\":", "                context, values, _w, _h = stack.pop()\n            elif event == \"start-ns\":"))
M("svg-geometry-inherited", ["C03"], "x/y/width/height of an svg are handed down to its children (the repaired defect)",
  ("                            SVG_ATTR_WIDTH,\n                            SVG_ATTR_HEIGHT,\n                        ):\n                            if attr in values:\n                                del values[attr]\n                        if context is None:", "                            SVG_ATTR_WIDTH,\n                            SVG_ATTR_HEIGHT,\n                        ):\n                            if attr in values and False:\n                                del values[attr]\n                        if context is None:"))
M("nested-svg-xy-ignored", ["C03"], "a nested svg without viewBox ignores x and y (the repaired defect)",
  ("                    elif context is not None and (s.x != 0 or s.y != 0):", "                    elif False:"))
M("use-translate-before-transform", ["C03"], "use x/y translate is put in front of the inherited transform",
  ('                values[SVG_ATTR_TRANSFORM] = "%s translate(%s, %s)" % (\n                    values[SVG_ATTR_TRANSFORM],\n                    self.x,\n                    self.y,\n                )', '                values[SVG_ATTR_TRANSFORM] = "translate(%s, %s) %s" % (\n                    self.x,\n                    self.y,\n                    values[SVG_ATTR_TRANSFORM],\n                )'))
M("defs-rendered", ["C03"], "content of defs is appended to the rendered tree",
  ("                    elif SVG_TAG_DEFS == tag:\n                        s = Group(values)\n                        context = s  # Non-Rendered", "                    elif SVG_TAG_DEFS == tag:\n                        s = Group(values)\n                        if context is not None:\n                            context.append(s)\n                        context = s"))
M("display-not-inherited", ["C03", "C14"], "display is treated as a non-inherited property: children of a display:none container are rendered",
  ("                    continue  # Values has a display=none. Do not render anything. No Shadow Dom.", "                    pass  # Values has a display=none. Do not render anything. No Shadow Dom."),
  ("                # Non-propagating values.\n", "                # Non-propagating values.\n                values.pop(SVG_ATTR_DISPLAY, None)\n"))
M("transform-prepended", ["C03"], "an element's transform is concatenated in front of the inherited one",
  ('                        attributes[SVG_ATTR_TRANSFORM] = (\n                            values[SVG_ATTR_TRANSFORM]\n                            + " "\n                            + attributes[SVG_ATTR_TRANSFORM]\n                        )', '                        attributes[SVG_ATTR_TRANSFORM] = (\n                            attributes[SVG_ATTR_TRANSFORM]\n                            + " "\n                            + values[SVG_ATTR_TRANSFORM]\n                        )'))
M("line-y1-percent-of-width", ["C03"], "a line's y1 percentage is resolved against the viewport width",
  ("            self.y1 = self.y1.value(relative_length=height, **kwargs)", "            self.y1 = self.y1.value(relative_length=width, **kwargs)"))
M("viewport-transform-before-own", ["C03"], "the viewport transform of an svg is applied outside its transform attribute",
  ('                                values[SVG_ATTR_TRANSFORM] += " " + viewport_transform\n                            else:\n                                values[SVG_ATTR_TRANSFORM] = viewport_transform\n                            values["viewport_transform"]', '                                values[SVG_ATTR_TRANSFORM] = viewport_transform + " " + values[SVG_ATTR_TRANSFORM]\n                            else:\n                                values[SVG_ATTR_TRANSFORM] = viewport_transform\n                            values["viewport_transform"]'))
M("use-children-lose-ppi", ["C03"], "shapes are rendered with the default ppi",
  ("                        s.render(ppi=ppi, width=width, height=height)\n                        if reify:\n                            s.reify()\n                        if s.is_degenerate():", "                        s.render(ppi=DEFAULT_PPI, width=width, height=height)\n                        if reify:\n                            s.reify()\n                        if s.is_degenerate():"))
M("rect-reify-skips-radii", ["C03", "C02"], "Rect.reify forgets to scale the corner radii",
  ("            self.rx = scale_x * self.rx\n            self.ry = scale_y * self.ry\n            self.width = scale_x * self.width", "            self.width = scale_x * self.width"))
M("circle-percent-per-axis", ["C03"], "circle r percent resolved per axis again (the repaired defect)",
  ('            and self.rx.units == "%"\n            and isinstance(width, (int, float))', '            and self.rx.units == "%%"\n            and isinstance(width, (int, float))'))
M("rect-clamp-before-units", ["C03"], "corner radii with units are never clamped (the repaired defect)",
  ("        # Sizes or radii that carried units could not be compared before: clamp the radii now.\n        self._validate_rect()\n", ""))

# ---- documents: fault tolerance (C10) -----------------------------------------------------------------------
M("container-guard-reraises", ["C10"], "a container in error aborts the parse again (the repaired defect)",
  ('                    # The element is in error: it and its content are not rendered.\n                    values[SVG_ATTR_DISPLAY] = SVG_VALUE_NONE\n                    continue', '                    raise e'))
M("container-guard-pops-stack", ["C10"], "the guard pops the element stack itself; the end event pops again",
  ('                    # The element is in error: it and its content are not rendered.\n                    values[SVG_ATTR_DISPLAY] = SVG_VALUE_NONE\n                    continue', '                    context, values, width, height = stack.pop()\n                    continue'))
M("container-guard-leaks-values", ["C10"], "the attributes of a container in error stay in force for its following siblings",
  ('                    # The element is in error: it and its content are not rendered.\n                    values[SVG_ATTR_DISPLAY] = SVG_VALUE_NONE\n                    continue', '                    stack[-1] = (context, dict(values), width, height)\n                    values[SVG_ATTR_DISPLAY] = SVG_VALUE_NONE\n                    continue'))
M("use-cycle-unchecked", ["C10"], "cyclic use references are expanded again (the repaired defect)",
  ("                    if url is not None and url[1:] not in inside:", "                    if url is not None:"))
M("use-cycle-ancestors-only", ["C10"], "only direct self references are detected",
  ("                if SVG_ATTR_ID in semiattr:\n                    inside = active + (semiattr[SVG_ATTR_ID],)", "                if SVG_ATTR_ID in semiattr:\n                    inside = (semiattr[SVG_ATTR_ID],)"))
M("matrix-parse-indexerror", ["C10"], "malformed transform functions raise IndexError again (the repaired defect)",
  ("        except (IndexError, TypeError):\n            # A function with missing, surplus or unusable parameters.", "        except (ZeroDivisionError,):\n            # A function with missing, surplus or unusable parameters."))
M("failed-shape-stops-document", ["C10"], "a shape that cannot be constructed ends the parse (as on_error='stop')",
  ("                                # s was not established we continue without it.\n                                continue", "                                # s was not established we continue without it.\n                                return root"))
M("opacity-overflow", ["C10"], "an infinite opacity raises OverflowError again (the repaired defect)",
  ("        opacity = min(max(opacity, 0.0), 1.0)\n", ""))
M("incomplete-viewbox-kept", ["C10", "C11"], "an incomplete viewBox is kept (the repaired defect)",
  ("            # A viewBox without four numbers is in error and is ignored.\n            self.viewbox = None", "            # A viewBox without four numbers is in error and is ignored.\n            pass"))
M("bad-path-keeps-none-points", ["C10"], "path data drawing before a moveto is returned with None coordinates (the repaired defect)",
  ("                                # up to the error, which is nothing.\n                                del s[:]", "                                # up to the error, which is nothing.\n                                pass"))
M("failed-shape-keeps-transform", ["C10"], "a failed element's attributes stay in the inherited values of its following siblings",
  ("                                # s was not established we continue without it.\n                                continue", "                                # s was not established we continue without it.\n                                stack[-1][1].update(attributes)\n                                continue"))

# ---- documents: cascade and paint (C14) -----------------------------------------------------------------------
M("cascade-sheet-order-only", ["C14"], "matching rules apply in sheet order, specificity ignored",
  ("                    matching.append((specificity, rule_index, declarations))", "                    matching.append((0, rule_index, declarations))"))
M("cascade-typeclass-ties-class", ["C14"], "type.class has the specificity of .class",
  ("                        specificity = 11", "                        specificity = 10"))
M("cascade-id-below-class", ["C14"], "an id rule has lower specificity than a class rule (the repaired defect)",
  ("                        specificity = 100", "                        specificity = 5"))
M("cascade-glued-rules", ["C14"], "matching rules are concatenated without a separator (the repaired defect)",
  ('                style = ";".join([declarations for _, _, declarations in matching])', '                style = "".join([declarations for _, _, declarations in matching])'))
M("inline-style-before-rules", ["C14"], "the inline style is applied before the sheet rules",
  ("                if SVG_ATTR_STYLE in attributes:\n                    if len(style) != 0:\n                        style += \";\"\n                    style += attributes[SVG_ATTR_STYLE]", "                if SVG_ATTR_STYLE in attributes:\n                    style = attributes[SVG_ATTR_STYLE] + \";\" + style"))
M("attribute-beats-style", ["C14"], "presentation attributes are not overridden by style declarations",
  ("                        value = str(equal_item[1]).strip()\n                        attributes[key] = value", "                        value = str(equal_item[1]).strip()\n                        attributes.setdefault(key, value)"))
M("stroke-not-inherited", ["C14"], "stroke is removed from the inherited values",
  ("                if SVG_ATTR_CLIP_PATH in values:\n                    del values[SVG_ATTR_CLIP_PATH]\n", "                if SVG_ATTR_CLIP_PATH in values:\n                    del values[SVG_ATTR_CLIP_PATH]\n                values.pop(SVG_ATTR_STROKE, None)\n"))
M("currentcolor-stroke-uses-inherited-color", ["C14"], "stroke=currentColor ignores the element's own color",
  ("                    if SVG_ATTR_COLOR in attributes:\n                        attributes[SVG_ATTR_STROKE] = attributes[SVG_ATTR_COLOR]\n                    else:", "                    if False:\n                        attributes[SVG_ATTR_STROKE] = attributes[SVG_ATTR_COLOR]\n                    else:"))
M("opacity-replaces-alpha", ["C14"], "fill-opacity replaces the colour's own alpha (the repaired defect)",
  ("                self.fill.opacity = self.fill.opacity * float(fill_opacity)", "                self.fill.opacity = float(fill_opacity)"))
M("css-comments-kept", ["C14"], "comments in the style sheet are not stripped",
  ('                    textstyle = re.sub(REGEX_CSS_COMMENT, "", textstyle)', '                    textstyle = textstyle'))
M("stroke-width-det-not-rooted", ["C14"], "stroke width scaled by |det| instead of its square root",
  ("                return width * sqrt(abs(det))", "                return width * abs(det)"))
M("non-scaling-stroke-ignored", ["C14"], "vector-effect is ignored: the full transform scales the stroke",
  ("                    transform = Matrix(self.values.get(\"viewport_transform\", \"\"))", "                    pass"))
M("selector-list-not-split", ["C14"], "comma separated selector lists are stored as one selector",
  ('                        for selector in key.split(","):  # Can comma select subitems.', '                        for selector in [key]:  # Can comma select subitems.'))
M("stroke-opacity-on-fill", ["C14"], "stroke-opacity is read from fill-opacity",
  ("        stroke_opacity = values.get(SVG_ATTR_STROKE_OPACITY, stroke_opacity)", "        stroke_opacity = values.get(SVG_ATTR_FILL_OPACITY, stroke_opacity)"))
M("class-split-single-space", ["C14"], "class lists are matched as one string",
  ('                svg_classes = attributes.get(SVG_ATTR_CLASS, "").split()', '                svg_classes = [attributes.get(SVG_ATTR_CLASS, "")]'))

# ---- writer round trip (C20) ---------------------------------------------------------------------------------
M("writer-skips-zero-attributes", ["C20"], "zero-valued rect coordinates are not written (the repaired defect)",
  ("        if node.x is not None:\n            xml_tree.set(SVG_ATTR_X, str(node.x))\n        if node.y is not None:\n            xml_tree.set(SVG_ATTR_Y, str(node.y))\n        if node.rx is not None:", "        if node.x:\n            xml_tree.set(SVG_ATTR_X, str(node.x))\n        if node.y:\n            xml_tree.set(SVG_ATTR_Y, str(node.y))\n        if node.rx is not None:"))
M("writer-circle-two-radii", ["C20"], "a circle with two radii is written with r = rx (the repaired defect)",
  ("        if node.rx == node.ry:\n            xml_tree = subxml(xml_tree, SVG_TAG_CIRCLE)\n        else:", "        if True:\n            xml_tree = subxml(xml_tree, SVG_TAG_CIRCLE)\n        else:"),
  ("        if node.rx == node.ry:\n            if node.rx is not None:\n                xml_tree.set(SVG_ATTR_RADIUS, str(node.rx))", "        if True:\n            if node.rx is not None:\n                xml_tree.set(SVG_ATTR_RADIUS, str(node.rx))"))
M("writer-use-keeps-transform", ["C20"], "a use written as a group keeps its own transform (the repaired defect)",
  ('    if hasattr(node, "transform") and not isinstance(node, (Group, Use)):', '    if hasattr(node, "transform") and not isinstance(node, Group):'))
M("writer-viewport-inverse-wrong-side", ["C20"], "the inverse viewport transform is multiplied on the wrong side",
  ("        if viewport_transform:\n            t = t * viewport_transform", "        if viewport_transform:\n            t = viewport_transform * t"))
M("writer-matrix-four-decimals", ["C20"], "matrices are written with four decimals",
  ('                "matrix(%f, %f, %f, %f, %f, %f)" % (t.a, t.b, t.c, t.d, t.e, t.f),', '                "matrix(%.4f, %.4f, %.4f, %.4f, %.4f, %.4f)" % (t.a, t.b, t.c, t.d, t.e, t.f),'))
M("writer-matrix-transposed", ["C20"], "b and c are swapped in the written matrix",
  ('                "matrix(%f, %f, %f, %f, %f, %f)" % (t.a, t.b, t.c, t.d, t.e, t.f),', '                "matrix(%f, %f, %f, %f, %f, %f)" % (t.a, t.c, t.b, t.d, t.e, t.f),'))
M("writer-stroke-opacity-dropped", ["C20"], "stroke-opacity is never written",
  ("            if stroke_opacity != 1.0 and stroke_opacity is not None:", "            if False:"))
M("writer-fill-none-omitted", ["C20"], "fill none is omitted (reads back as black)",
  ("        fill = node.fill\n        if fill is not None:", "        fill = node.fill\n        if fill is not None and fill.value is not None:"))
M("writer-id-dropped-on-shapes", ["C20"], "ids are written for containers only",
  ('    if hasattr(node, "id"):\n        if node.id is not None:', '    if hasattr(node, "id") and isinstance(node, (Group, Use)):\n        if node.id is not None:'))
M("writer-polygon-as-polyline", ["C20"], "polygons are written as polylines",
  ("        xml_tree = subxml(xml_tree, SVG_TAG_POLYGON)", "        xml_tree = subxml(xml_tree, SVG_TAG_POLYLINE)"))
M("writer-svgz-unclosed", ["C20"], "the gzip stream is not closed (the repaired defect)",
  ("            # The compressed stream is only complete once it is closed.\n            opened.close()", "            pass"))
M("writer-nested-svg-own-inverse-only", ["C20"], "children of a nested svg are divided by its own viewport transform only (the repaired defect)",
  ("            vt = viewport_transform * vt if vt else viewport_transform", "            vt = vt if vt else viewport_transform"))
M("writer-stroke-width-unreified", ["C20"], "the stroke width is written from the source attribute, not the reified value",
  ("                stroke_width = str(node.stroke_width)", "                stroke_width = str(node.values.get(SVG_ATTR_STROKE_WIDTH, node.stroke_width))"))
M("writer-par-dropped", ["C20"], "preserveAspectRatio of a built svg is not written (the repaired defect)",
  ("            if node.viewbox.preserve_aspect_ratio is not None:\n                # The viewport", "            if False:\n                # The viewport"))
M("stroke-width-percent-unnormalised", ["C14"], "percent stroke width against the un-normalised diagonal (the repaired defect)",
  ("                relative_length=sqrt((width * width + height * height) / 2.0),", "                relative_length=sqrt(width * width + height * height),"))

# ---- added after the second seeding round ---------------------------------------------------------------------
M("lexer-accepts-infinite-literal", ["C09"], "1e999 is accepted as a coordinate (the repaired defect)",
  ('            if value in (float("inf"), float("-inf")):\n                # A literal such as 1e999', '            if False:\n                # A literal such as 1e999'))
M("arc-radius-underflow-divides", ["C09"], "radii whose square underflows divide by zero again (the repaired defect)",
  ("        if rx_sq == 0 or ry_sq == 0:\n            # A radius whose square underflows", "        if False:\n            # A radius whose square underflows"))
M("arc-overflow-stores-nan", ["C09"], "overflowing arc parameters are stored as NaN (the repaired defect)",
  ("            if value != value or value in (float(\"inf\"), float(\"-inf\")):\n                # Radii or a chord", "            if False:\n                # Radii or a chord"))
M("validate-subpath-aliases-move", ["C02", "C17"], "a close re-validated after a join shares the Point object of its move",
  ("self._segments[j].end = Point(move_search.end)", "self._segments[j].end = move_search.end"))
M("use-select-skips-use", ["C08"], "a use does not descend into a directly nested use when collecting boxes (no-conditional branch of Use.select)",
  ('        u = Use(self)\n        u.extend(map(copy, self))\n        return u\n\n    def select(self, conditional=None):\n        """\n        Finds all flattened subobjects of this group for which the conditional returns\n        true.\n\n        :param conditional: function taking element and returns True to include or False if exclude\n        """\n        if conditional is None:\n            for subitem in self:\n                yield subitem\n                if isinstance(subitem, (Group, Use)):', '        u = Use(self)\n        u.extend(map(copy, self))\n        return u\n\n    def select(self, conditional=None):\n        """\n        Finds all flattened subobjects of this group for which the conditional returns\n        true.\n\n        :param conditional: function taking element and returns True to include or False if exclude\n        """\n        if conditional is None:\n            for subitem in self:\n                yield subitem\n                if isinstance(subitem, Group):'))
M("arc-reverse-skips-zero-sweep", ["C16"], "Arc.reverse leaves a zero-sweep (zero-radius) arc as it is",
  ("    def reverse(self):\n        PathSegment.reverse(self)\n        self.sweep = -self.sweep", "    def reverse(self):\n        if self.sweep == 0:\n            return\n        PathSegment.reverse(self)\n        self.sweep = -self.sweep"))
M("text-guard-removed", ["C10"], "a text element in error aborts the parse again (the repaired defect)",
  ("                        s = None  # The element is in error and is not rendered.", "                        raise e"))
